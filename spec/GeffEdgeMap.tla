---------------------------- MODULE GeffEdgeMap ----------------------------
(***************************************************************************)
(* C12, GEFF entry point, EDGE name maps: GeffTracksBuilder.validate_name_map *)
(* followed by the import, over all maps of a small universe.  The store has  *)
(* node properties t y x a and the edge property w.                           *)
(*   tm : time mapping   "ok" (t) | "bad" (a property the store lacks)         *)
(*   cu : node key "a"   "absent" | "a" (a -> "a")                             *)
(*   em : edge map       "nomap" (None) | "empty" ({}) | "ok" ({"iou": "w"})   *)
(*                       | "bad" ({"iou": "nocol"}) | "collide" ({"a": "w"})   *)
(*                       | "custom" ({"weight": "w"})                          *)
(* stages: node map columns -> edge map columns -> node / edge key collisions  *)
(***************************************************************************)
EXTENDS Integers, Sequences, FiniteSets, TLC

Maps == [tm : {"ok", "bad"}, cu : {"absent", "a"}, em : {"nomap", "empty", "ok", "bad", "collide", "custom"}]

VARIABLES m, stage, res
vars == <<m, stage, res>>
Init == m \in Maps /\ stage = "node_columns" /\ res = ""
Next == /\ res = ""
        /\ CASE stage = "node_columns" -> IF m.tm = "bad" THEN res' = "ValueError" /\ UNCHANGED stage
                                         ELSE stage' = "edge_columns" /\ UNCHANGED res
             [] stage = "edge_columns" -> IF m.em = "bad" THEN res' = "ValueError" /\ UNCHANGED stage
                                         ELSE stage' = "collisions" /\ UNCHANGED res
             [] stage = "collisions"   -> res' = (IF m.em = "collide" /\ m.cu = "a" THEN "ValueError" ELSE "ok") /\ UNCHANGED stage
        /\ UNCHANGED m
Spec == Init /\ [][Next]_vars
Model(mm) == IF mm.tm = "bad" \/ mm.em = "bad" \/ (mm.em = "collide" /\ mm.cu = "a") THEN "ValueError" ELSE "ok"

\* the property: a mapping to a property the store does not have is rejected, a flawless map is imported - with
\* the mapped edge property carried over (carried = the loaded edge values equal the source values of w)
MustReject(mm) == mm.tm = "bad" \/ mm.em = "bad"
Clean(mm) == mm.tm = "ok" /\ mm.em \in {"nomap", "empty", "ok", "custom"}
MapOK(mm, r, carried) == /\ (MustReject(mm) => r = "ValueError")
                         /\ (Clean(mm) => (r = "ok" /\ (mm.em \in {"ok", "custom"} => carried)))
Inv_Map == res # "" => MapOK(m, res, TRUE)
Inv_Model == res # "" => res = Model(m)
=============================================================================
