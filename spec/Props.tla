------------------------------- MODULE Props -------------------------------
(***************************************************************************)
(* Call alphabet (as integer tuples, so that TLC, the JSON traces and the  *)
(* Python harness share one encoding), StepSet, and the listed properties  *)
(* C01..C11, C20 as predicates over OBSERVABLE state records.  The same    *)
(* predicates are evaluated on model transitions (MC*.tla) and on states   *)
(* recorded from the real code (TraceStep.tla).                            *)
(***************************************************************************)
EXTENDS Core

(***************************************************************************)
(* Calls: <<kind, a, b, c, d>>                                             *)
(*  1 addnode  n t tid flags(1=force,2=no position,4=no time,8=no track id,*)
(*                           16=partial per-axis position, 32=pixels given *)
(*                           although there is no segmentation)            *)
(*  2 addedge  u v force                                                   *)
(*  3 deledge  u v                                                         *)
(*  4 delnode  n                                                           *)
(*  5 swap     a b                                                         *)
(*  6 setattr  n key(1 cust,2 time,3 tid,4 lid,5 pos,6 area) val           *)
(*  7 undo     8 redo                                                      *)
(*  9 paint    t strokeBits value  tid*2+force                             *)
(***************************************************************************)
\* named values for the tuple-valued constants (cfg files cannot write tuples)
D_none == <<>>       D_2 == <<2>>         D_3 == <<3>>
D_2x2 == <<2, 2>>    D_1x3 == <<1, 3>>    D_2x3 == <<2, 3>>
D_1x2x2 == <<1, 2, 2>>   D_2x1x2 == <<2, 1, 2>>   D_2x2x2 == <<2, 2, 2>>   D_3x3x3 == <<3, 3, 3>>
S_none == <<>>       S_1 == <<1>>         S_2 == <<2>>
S_11 == <<1, 1>>     S_12 == <<1, 2>>     S_23 == <<2, 3>>
S_111 == <<1, 1, 1>> S_213 == <<2, 1, 3>>

Bit(x, i) == (x \div (2 ^ i)) % 2 = 1
KAddNode == 1  KAddEdge == 2  KDelEdge == 3  KDelNode == 4  KSwap == 5
KSetAttr == 6  KUndo == 7     KRedo == 8     KPaint == 9
KEnable == 10  KDisable == 11
\* 12 rebuild mode: a NEW SolutionTracks is constructed from a copy of the current graph (and array);
\*    mode bits: 1 = track ids removed from the copy, 2 = lineage ids removed, 4 = through Tracks(...) and
\*    SolutionTracks.from_tracks, 8 = position and area removed (segmentation only), 16 = constructed with
\*    features = the old object's FeatureDict
KRebuild == 12
IsCtor(c) == c[1] = KRebuild
\* primitive actions called directly (C01 names them): the action, then .inverse(), then .inverse() of that
\*  21 AddNode n t tid lid   22 DeleteNode n   23 AddEdge u v   24 DeleteEdge u v
\*  25 UpdateTrackIDs start newT newL   26 UpdateNodeSeg n strokeBits added   27 UpdateNodeAttrs n key val
KPAddNode == 21  KPDelNode == 22  KPAddEdge == 23  KPDelEdge == 24  KPUpdTids == 25  KPUpdSeg == 26  KPUpdAttrs == 27
IsPrim(c) == c[1] \in 21..27
\* bit i of a feature mask (calls 10 / 11); bit 8 = a feature nobody manages
FeatBits == <<"area", "iou", "circ", "lid", "pos", "tid", "perim", "axes">>
FeatSet(m) == {FeatBits[i] : i \in {j \in 1..Len(FeatBits) : Bit(m, j - 1)}}


\* position a caller gives node n when there is no segmentation (2 axes)
UserPos(n) == << <<n, 1>>, <<2 * n + 1, 2>> >>

\* (9 / 10: a dict with TWO keys - the custom attribute and the time, in either order: refused as a whole)
KeyName(k) == CASE k = 1 -> "cust" [] k = 2 -> "time" [] k = 3 -> "tid" [] k = 4 -> "lid"
                [] k = 5 -> "pos" [] k = 6 -> "area" [] k = 7 -> "iou" [] k = 8 -> "circ"
                [] k \in {9, 10} -> "time" [] OTHER -> "cust"

\* pixels of frame t selected by the bit mask over in-frame positions
Stroke(t, bits) == {q \in Pix : FrameOf(q) = t /\ Bit(bits, InFrame(q))}
\* a paint call with t >= T is a stroke over TWO time points: the same in-frame pixels in frames t - T and t - T + 1
\* (an invalid argument when a label is painted: "can only update one time point at a time")
PaintStroke(c) == IF c[2] >= T THEN Stroke(c[2] - T, c[3]) \cup Stroke(c[2] - T + 1, c[3]) ELSE Stroke(c[2], c[3])

AddNodeArgs(c) ==
    [n |-> c[2], t |-> IF Bit(c[5], 2) THEN NoT ELSE c[3], tid |-> IF Bit(c[5], 3) THEN None ELSE c[4],
     \* flag 2: no position; flag 16: only part of a per-axis position - both are "no position"
     pos |-> IF Bit(c[5], 1) \/ Bit(c[5], 4) \/ HasSeg THEN NoPos ELSE UserPos(c[2]), cust |-> None,
     \* flag 32: pixels are passed although the tracks have no segmentation
     force |-> Bit(c[5], 0), px |-> {}, pxnone |-> ~Bit(c[5], 5)]

\* results are normalised to [s, ok, err, emit, ret]
Norm(r) == [s |-> r.s, ok |-> r.ok, err |-> r.err, emit |-> r.emit, ret |-> r.ok]

IsEdit(c) == c[1] \notin {KUndo, KRedo, KEnable, KDisable, KRebuild}
\* the harness's Driver re-registers the custom attributes and re-enables the features the suite enables on
\* top of the core ones (with recomputation)
CoreFeat == {"tid", "lid", "pos", "area"}
Rebuild(S, m) ==
    LET ks == (IF Bit(m, 0) THEN {"tid"} ELSE {}) \cup (IF Bit(m, 1) THEN {"lid"} ELSE {})
              \cup (IF Bit(m, 3) /\ HasSeg THEN {"pos", "area"} ELSE {})
        G  == Strip(S, ks)
        C  == IF Bit(m, 4) THEN CtorFeatures(G) ELSE IF Bit(m, 2) THEN CtorFromTracks(G) ELSE CtorDirect(G)
        C1 == [C EXCEPT !.reg = @ \cup (S.reg \cap {"cust", "ecust"})]
        extra == (S.act \ CoreFeat) \cap Available
        C2 == IF extra = {} THEN C1 ELSE Enable(C1, extra, FALSE, TRUE).s
    IN [s |-> C2, ok |-> TRUE, err |-> "ok", emit |-> <<>>, ret |-> TRUE]
\* raw result of a primitive call (ps = <<the applied primitive>>)
PrimRaw(S, c) ==
    CASE c[1] = KPAddNode  -> PAddNode(S, c[2], [NoAttrs EXCEPT !.time = c[3], !.tid = c[4], !.lid = c[5],
                                                           !.pos = IF HasSeg THEN NoPos ELSE UserPos(c[2])],
                                        IF HasSeg THEN Stroke(c[3], 1) ELSE {}, ~HasSeg)
      [] c[1] = KPDelNode  -> PDelNode(S, c[2], {}, TRUE)
      [] c[1] = KPAddEdge  -> PAddEdge(S, c[2], c[3], NoAttrs)
      [] c[1] = KPDelEdge  -> PDelEdge(S, c[2], c[3])
      [] c[1] = KPUpdTids  -> PUpdTids(S, c[2], c[3], c[4])
      [] c[1] = KPUpdSeg   -> PUpdSeg(S, c[2], IF Has(S, c[2]) THEN Stroke(S.time[c[2]], c[3]) ELSE {}, c[4] = 1)
      [] c[1] = KPUpdAttrs -> PUpdAttrs(S, c[2], KeyName(c[3]), c[4])
PrimNorm(r) == [s |-> r.s, ok |-> r.ok, err |-> r.err, emit |-> <<>>, ret |-> r.ok]
\* the action, its inverse, the inverse of the inverse: <<result, after inverse, after inverse of inverse>>
PrimTriple(S, c) ==
    LET r == PrimRaw(S, c)
        u == IF r.ok THEN InvPrim(r.s, r.ps[1]) ELSE r
        v == IF r.ok /\ u.ok THEN InvPrim(u.s, u.ps[1]) ELSE u
    IN <<r, u, v>>
IsSwitch(c) == c[1] \in {KEnable, KDisable}
NormSw(r) == [s |-> r.s, ok |-> r.ok, err |-> r.err, emit |-> r.emit, ret |-> r.ok]
Ords(c) == IF c[1] = KPaint THEN {1, 2, 3, 4} ELSE IF c[1] \in {KAddNode, KDelNode} THEN {1, 2} ELSE {1}

StepOrd(S, c, ord) ==
    CASE c[1] = KAddNode -> Norm(UAddNode(S, AddNodeArgs(c), ord, TRUE))
      [] c[1] = KAddEdge -> Norm(UAddEdge(S, c[2], c[3], c[4] = 1, TRUE))
      [] c[1] = KDelEdge -> Norm(UDelEdge(S, c[2], c[3], TRUE))
      [] c[1] = KDelNode -> Norm(UDelNode(S, c[2], {}, TRUE, ord, TRUE))
      [] c[1] = KSwap    -> Norm(USwap(S, c[2], c[3]))
      [] c[1] = KSetAttr -> Norm(UUpdAttrs(S, c[2], KeyName(c[3]), c[4]))
      [] c[1] = KUndo    -> Undo(S)
      [] c[1] = KRedo    -> Redo(S)
      [] IsPrim(c)       -> PrimNorm(PrimRaw(S, c))
      [] c[1] = KEnable  -> NormSw(Enable(S, FeatSet(c[2]), Bit(c[2], 8), c[3] = 1))
      [] c[1] = KDisable -> NormSw(Disable(S, FeatSet(c[2]), Bit(c[2], 8)))
      [] c[1] = KRebuild -> Rebuild(S, c[2])
      [] c[1] = KPaint   ->
            LET st == PaintStroke(c)
                r  == Norm(UPaint(PaintedSeg(S, st, c[4]), S.seg, st, c[4], c[5] \div 2, c[5] % 2 = 1, ord))
            \* after a refused update the CALLER restores the pixels it had painted (C11)
            IN IF r.ok \/ ~HasSeg THEN r
               ELSE [r EXCEPT !.s = [r.s EXCEPT !.seg = [q \in Pix |-> IF q \in st THEN S.seg[q] ELSE @[q]]]]
StepSet(S, c) == {StepOrd(S, c, o) : o \in Ords(c)}

(***************************************************************************)
(* Observable state: what the projection of the real object also has       *)
(***************************************************************************)
Obs(S) == [time |-> S.time, E |-> S.E, tid |-> S.tid, lid |-> S.lid, t2n |-> S.t2n, l2n |-> S.l2n,
           maxT |-> S.maxT, maxL |-> S.maxL, cust |-> S.cust, pos |-> S.pos, area |-> S.area,
           iou |-> S.iou, seg |-> S.seg, act |-> S.act, reg |-> S.reg, shp |-> S.shp, shpv |-> S.shp, ecust |-> S.ecust,
           ulen |-> Len(S.U), rlen |-> Len(S.R)]

(***************************************************************************)
(* State predicates (on observable records)                                *)
(***************************************************************************)
RECURSIVE Grow(_, _)
Grow(EE, X) == LET Y == X \cup {e[2] : e \in {f \in EE : f[1] \in X}}
                           \cup {e[1] : e \in {f \in EE : f[2] \in X}}
               IN IF Y = X THEN X ELSE Grow(EE, Y)
Comp(O, a)    == Grow(O.E, {a})                                    \* weak component
LinE(O)       == {e \in O.E : OutDeg(O, e[1]) < 2}                 \* edges not leaving a division
Segment(O, a) == Grow(LinE(O), {a})                                \* unbranched segment

\* documented preconditions of the primitives (the domain of C01 for them)
Desc(O, n) == LET RECURSIVE G(_)
                  G(X) == LET Y == X \cup {e[2] : e \in {f \in O.E : f[1] \in X}} IN IF Y = X THEN X ELSE G(Y)
              IN G({n})
PrimPre(O, c) ==
    CASE c[1] = KPAddNode  -> /\ c[2] \in Node /\ ~Has(O, c[2])
                              /\ (HasSeg => \A q \in Stroke(c[3], 1) : O.seg[q] = 0)          \* paints onto background
      [] c[1] = KPDelNode  -> Has(O, c[2]) /\ InDeg(O, c[2]) = 0 /\ OutDeg(O, c[2]) = 0       \* no incident edges
      [] c[1] = KPAddEdge  -> Has(O, c[2]) /\ Has(O, c[3]) /\ <<c[2], c[3]>> \notin O.E
      [] c[1] = KPDelEdge  -> <<c[2], c[3]>> \in O.E
      \* the new id is not found downstream of the relabelled segment
      [] c[1] = KPUpdTids  -> /\ Has(O, c[2])
                              /\ \A d \in Desc(O, c[2]) : O.tid[d] = O.tid[c[2]] \/ O.tid[d] # c[3]
                              /\ \A d \in Desc(O, c[2]) : O.tid[d] = O.tid[c[2]] => d \in Segment(O, c[2])
      [] c[1] = KPUpdSeg   -> /\ Has(O, c[2]) /\ HasSeg
                              /\ LET st == Stroke(O.time[c[2]], c[3]) IN
                                 IF c[4] = 1 THEN \A q \in st : O.seg[q] = 0
                                 ELSE st \subseteq MaskOf(O, c[2]) /\ st # MaskOf(O, c[2])
      [] c[1] = KPUpdAttrs -> Has(O, c[2]) /\ KeyName(c[3]) = "cust"
      [] OTHER -> TRUE

PosEq(p, q) == Len(p) = Len(q) /\ \A d \in 1..Len(p) : RatEq(p[d], q[d])

Forest(O) ==
    /\ \A e \in O.E : Has(O, e[1]) /\ Has(O, e[2]) /\ O.time[e[1]] < O.time[e[2]]
    /\ \A n \in Present(O) : InDeg(O, n) <= 1 /\ OutDeg(O, n) <= 2

TidOK(O) == ("tid" \in O.act) => \A a \in Present(O) :
               /\ O.tid[a] # None
               /\ \A b \in Present(O) : (O.tid[a] = O.tid[b]) <=> (b \in Segment(O, a))
LidOn(O) == "lid" \in O.act
LidOK(O) == LidOn(O) => \A a \in Present(O) :
               /\ O.lid[a] # None
               /\ \A b \in Present(O) : (O.lid[a] = O.lid[b]) <=> (b \in Comp(O, a))

TidOn(O) == "tid" \in O.act
LookupOK(O) == TidOn(O) =>
    /\ O.t2n = {<<O.tid[n], n>> : n \in Present(O)}
    /\ \A n \in Present(O) : O.tid[n] <= O.maxT
    /\ LidOn(O) => /\ O.l2n = {<<O.lid[n], n>> : n \in Present(O)}
                   /\ \A n \in Present(O) : O.lid[n] <= O.maxL

\* reference answers of the two track queries, by scanning the graph
ScanPred(O, id, t) == LET C == {n \in Present(O) : O.tid[n] = id /\ O.time[n] < t}
                      IN IF C = {} THEN None ELSE CHOOSE n \in C : \A m \in C : O.time[m] <= O.time[n]
ScanSucc(O, id, t) == LET C == {n \in Present(O) : O.tid[n] = id /\ O.time[n] > t}
                      IN IF C = {} THEN None ELSE CHOOSE n \in C : \A m \in C : O.time[m] >= O.time[n]
ScanHas(O, id, t)  == \E n \in Present(O) : O.tid[n] = id /\ O.time[n] = t

\* segmentation <-> nodes (C07), measurements (C08), IoU (C09)
SegOK(O) == HasSeg =>
    /\ \A n \in Present(O) : MaskAll(O, n) # {} /\ \A q \in MaskAll(O, n) : FrameOf(q) = O.time[n]
    /\ \A q \in Pix : O.seg[q] # 0 => Has(O, O.seg[q])
AreaOK(O) == (HasSeg /\ "area" \in O.act) =>
    \A n \in Present(O) : O.area[n] = AreaRef(MaskOf(O, n))
PosOK(O) == (HasSeg /\ "pos" \in O.act) =>
    \A n \in Present(O) : MaskOf(O, n) # {} => PosEq(O.pos[n], PosRef(MaskOf(O, n)))
IoUOK(O) == (HasSeg /\ "iou" \in O.act) =>
    \A e \in O.E : LET r == IoURef(MaskOf(O, e[1]), MaskOf(O, e[2]))
                   IN r[2] # 0 => RatEq(O.iou[e], r)

\* active shape features were computed from the node's current mask
ShapeOK(O) == HasSeg => \A k \in ShapeKeys \cap O.act : \A n \in Present(O) :
                 MaskOf(O, n) # {} => O.shp[k][n] = MaskOf(O, n)
\* the registry lists exactly the static plus the enabled features
Static(O) == O.reg \ Available
RegistryOK(O) == O.reg \cap Available = O.act
Valid(O) == Forest(O) /\ TidOK(O) /\ LidOK(O) /\ LookupOK(O) /\ SegOK(O)
            /\ AreaOK(O) /\ PosOK(O) /\ IoUOK(O) /\ ShapeOK(O)
\* the state predicates of a pre-state, computed once per state (x.pf)
PF(O) == [forest |-> Forest(O), tid |-> TidOK(O), lid |-> LidOK(O), look |-> LookupOK(O),
          seg |-> SegOK(O), meas |-> AreaOK(O) /\ PosOK(O) /\ ShapeOK(O), iou |-> IoUOK(O)]
PFValid(f) == f.forest /\ f.tid /\ f.lid /\ f.look /\ f.seg /\ f.meas /\ f.iou

(***************************************************************************)
(* Equalities between observable states                                    *)
(***************************************************************************)
\* C01: nodes, edges, every REGISTERED feature (missing = None), segmentation
ObsEq(A, B) ==
    /\ A.time = B.time /\ A.E = B.E /\ A.seg = B.seg
    /\ ("tid" \in A.reg => A.tid = B.tid)
    /\ ("lid" \in A.reg => A.lid = B.lid)
    /\ ("cust" \in A.reg => A.cust = B.cust)
    /\ ("area" \in A.reg => A.area = B.area)
    /\ ("pos" \in A.reg => \A n \in Node : PosEq(A.pos[n], B.pos[n]))
    /\ ("iou" \in A.reg => \A e \in A.E : RatEq(A.iou[e], B.iou[e]))
    /\ \A k \in ShapeKeys \cap A.reg : A.shpv[k] = B.shpv[k]
    /\ ("ecust" \in A.reg => A.ecust = B.ecust)
\* C11 / C16: everything observable, all attributes, lookups, history lengths, registry
FullEq0(A, B) ==
    /\ A.time = B.time /\ A.E = B.E /\ A.seg = B.seg
    /\ A.tid = B.tid /\ A.lid = B.lid /\ A.cust = B.cust /\ A.area = B.area /\ A.ecust = B.ecust
    /\ \A n \in Node : PosEq(A.pos[n], B.pos[n])
    /\ \A e \in A.E : RatEq(A.iou[e], B.iou[e])
    /\ A.t2n = B.t2n /\ A.l2n = B.l2n
    /\ A.ulen = B.ulen /\ A.rlen = B.rlen /\ A.reg = B.reg /\ A.act = B.act
FullEq(A, B) == FullEq0(A, B) /\ A.shpv = B.shpv
\* model state vs recorded real state: shape values are compared through freshness of the
\* ACTIVE shape features only (the model abstracts a shape value by the mask it came from)
RefEq(M, R) == /\ FullEq0(M, R) /\ M.maxT = R.maxT /\ M.maxL = R.maxL
               /\ \A k \in ShapeKeys \cap M.act : \A n \in Present(M) :
                     (M.shp[k][n] = MaskOf(M, n)) <=> (R.shp[k][n] = MaskOf(R, n))

(***************************************************************************)
(* Transition predicates.  x = [pre, c, ok, err, emit, post] (observables) *)
(***************************************************************************)
Refused(x)  == ~x.ok
Accepted(x) == x.ok /\ IsEdit(x.c)

\* --- C03 ---------------------------------------------------------------
\* would the requested edit by itself create a merge / third child / non-forward edge?
AddNodeRefTid(O, c) == IF ScanHas(O, c[4], c[3]) THEN O.maxT + 1 ELSE c[4]
UpDiv(O, c)   == LET p == ScanPred(O, AddNodeRefTid(O, c), c[3]) IN p # None /\ OutDeg(O, p) = 2
DownDiv(O, c) == LET s == ScanSucc(O, AddNodeRefTid(O, c), c[3])
                 IN s # None /\ \E q \in Preds(O, s) : OutDeg(O, q) = 2
Conflicting(O, c) ==
    CASE c[1] = KAddEdge ->
            /\ Has(O, c[2]) /\ Has(O, c[3])
            /\ \/ O.time[c[2]] >= O.time[c[3]]                                   \* not forward
               \/ (c[4] = 0 /\ InDeg(O, c[3]) > 0)                               \* merge, no force
               \/ OutDeg(O, c[2]) - (IF <<c[2], c[3]>> \in O.E THEN 1 ELSE 0) >= 2   \* third child
      [] c[1] = KAddNode ->
            /\ ~Has(O, c[2]) /\ ~Bit(c[5], 2) /\ ~Bit(c[5], 3) /\ ~Bit(c[5], 0)
            /\ (UpDiv(O, c) \/ DownDiv(O, c))
      [] OTHER -> FALSE
\* edges a call may remove
Removable(O, c) ==
    CASE c[1] = KAddEdge -> IF c[4] = 1 THEN {e \in O.E : e[2] = c[3]} ELSE {}
      [] c[1] = KDelEdge -> {<<c[2], c[3]>>}
      [] c[1] = KDelNode -> {e \in O.E : e[1] = c[2] \/ e[2] = c[2]}
      [] c[1] = KSwap    -> {e \in O.E : e[2] = c[2] \/ e[2] = c[3]}
      [] c[1] = KAddNode ->
            LET id == AddNodeRefTid(O, c)
                p  == ScanPred(O, id, c[3])
                s  == ScanSucc(O, id, c[3])
            IN {e \in O.E : e = <<p, s>>}                                        \* replaced skip edge
               \cup (IF Bit(c[5], 0) THEN {e \in O.E : (e[1] = p /\ OutDeg(O, p) = 2)
                                                   \/ (e[2] = s /\ OutDeg(O, e[1]) = 2)} ELSE {})
      [] c[1] = KPaint   -> O.E     \* decided for the nested actions by the seg configuration
      [] OTHER -> {}
P_C03(x) == (x.pf.forest /\ ~IsPrim(x.c)) =>
    /\ Forest(x.post)
    /\ (Conflicting(x.pre, x.c) => (Refused(x) /\ x.err \in {"InvalidActionError", "InvalidActionError!"}))
    /\ (Accepted(x) => (x.pre.E \ x.post.E) \subseteq Removable(x.pre, x.c))

\* --- C04 / C05 -----------------------------------------------------------
NamedNodes(c) == CASE c[1] \in {KAddEdge, KDelEdge, KSwap} -> {c[2], c[3]}
                   [] c[1] \in {KAddNode, KDelNode, KSetAttr} -> {c[2]}
                   [] c[1] = KPaint -> {c[4]}
                   [] OTHER -> {}
NamedTids(c) == CASE c[1] = KAddNode -> {c[4]} [] c[1] = KPaint -> {c[5] \div 2} [] OTHER -> {}
Touched(x) == LET pn == {n \in Node : n \in NamedNodes(x.c)}
                  pt == {n \in Present(x.pre) : x.pre.tid[n] \in NamedTids(x.c)}
                  \* a paint also names the nodes whose pixels it overwrites
                  po == IF x.c[1] = KPaint THEN {x.pre.seg[q] : q \in PaintStroke(x.c)} \ {0} ELSE {}
              IN pn \cup pt \cup po
Untouched(x) == {n \in Present(x.pre) \cap Present(x.post) :
                    (Comp(x.pre, n) \cup Comp(x.post, n)) \cap Touched(x) = {}}
\* a constructed solution: same nodes, edges and times as the graph it was given
SameGraph(A, B) == A.time = B.time /\ A.E = B.E
\* "in a tracking solution - after construction": the constructed object manages track ids (nobody disabled
\* the feature) and they label the segments, whether they were given, partly given or computed
P_C04Ctor(x) == (IsCtor(x.c) /\ x.pf.forest) =>
    (x.ok /\ SameGraph(x.pre, x.post) /\ "tid" \in x.post.act /\ TidOK(x.post)
     /\ \A n \in Present(x.post) : x.post.tid[n] <= x.post.maxT)
\* (and the id source is not behind the ids in use - or the next edit that starts a lineage breaks the clause)
P_C05Ctor(x) == (IsCtor(x.c) /\ x.pf.forest) =>
    (x.ok /\ SameGraph(x.pre, x.post) /\ "lid" \in x.post.act /\ LidOK(x.post)
     /\ \A n \in Present(x.post) : x.post.lid[n] <= x.post.maxL)
P_C04Edit(x) == (x.pf.forest /\ x.pf.tid /\ x.ok /\ ~IsSwitch(x.c) /\ ~IsPrim(x.c)) =>
    /\ TidOK(x.post)
    /\ (IsEdit(x.c) => \A n \in Untouched(x) : x.post.tid[n] = x.pre.tid[n])
P_C04(x) == P_C04Ctor(x) /\ P_C04Edit(x)
P_C05Edit(x) == (x.pf.forest /\ x.pf.lid /\ LidOn(x.pre) /\ x.ok /\ ~IsSwitch(x.c) /\ ~IsPrim(x.c)) =>
    /\ LidOK(x.post)
    /\ (IsEdit(x.c) => \A n \in Untouched(x) : x.post.lid[n] = x.pre.lid[n])
P_C05(x) == P_C05Ctor(x) /\ P_C05Edit(x)

\* --- C06 (state part; the query part needs the recorded answers) --------
\* (the lookups of a constructed solution are read or computed from the graph it was given)
\* (no antecedent on the id partitions: the lookups must mirror the ids on the graph whatever those ids are)
P_C06(x) == /\ ((x.pf.forest /\ x.pf.look /\ ~IsSwitch(x.c) /\ ~IsPrim(x.c)) => LookupOK(x.post))
            /\ ((IsCtor(x.c) /\ x.pf.forest /\ x.ok) => LookupOK(x.post))

\* --- C10 ---------------------------------------------------------------
\* value of feature k on the elements that survive the call (for "a disabled feature is not changed")
\* (an edge that a forced add-edge removes and re-creates is a new edge, not a surviving one)
SameFeature(k, A, B, c) ==
    LET sv == Present(A) \cap Present(B)
        se == (A.E \cap B.E) \ (IF c[1] = KAddEdge THEN {<<c[2], c[3]>>} ELSE {}) IN
    CASE k = "tid"  -> \A n \in sv : A.tid[n] = B.tid[n]
      [] k = "lid"  -> \A n \in sv : A.lid[n] = B.lid[n]
      [] k = "area" -> \A n \in sv : A.area[n] = B.area[n]
      [] k = "pos"  -> \A n \in sv : PosEq(A.pos[n], B.pos[n])
      [] k = "iou"  -> \A e \in se : RatEq(A.iou[e], B.iou[e])
      [] OTHER      -> \A n \in sv : A.shpv[k][n] = B.shpv[k][n]
ManagedKey(c) == c[1] = KSetAttr /\ KeyName(c[3]) \in (Available \cup {"time"})
P_C10(x) ==
    /\ RegistryOK(x.pre) => RegistryOK(x.post)
    \* unknown feature: KeyError and nothing changes
    /\ (IsSwitch(x.c) /\ (Bit(x.c[2], 8) \/ ~(FeatSet(x.c[2]) \subseteq Available)))
          => (~x.ok /\ x.err = "KeyError" /\ FullEq(x.post, x.pre))
    \* enabling with recomputation: reference values for the current state, whatever came before
    /\ (x.c[1] = KEnable /\ x.ok /\ x.c[3] = 1 /\ x.pf.forest /\ x.pf.seg)
          => LET K == FeatSet(x.c[2]) IN
             /\ K \subseteq x.post.act
             /\ ("tid" \in K => TidOK(x.post) /\ LookupOK(x.post))
             /\ ("lid" \in K => LidOK(x.post) /\ LookupOK(x.post))
             /\ ("area" \in K => AreaOK(x.post)) /\ ("pos" \in K => PosOK(x.post))
             /\ ("iou" \in K => IoUOK(x.post)) /\ (K \cap ShapeKeys # {} => ShapeOK(x.post))
    /\ (x.c[1] = KDisable /\ x.ok) => (FeatSet(x.c[2]) \cap x.post.act = {})
    \* a disabled feature is not changed by edits (nor by undo / redo)
    /\ (~IsSwitch(x.c) /\ ~IsPrim(x.c) /\ ~IsCtor(x.c)) => \A k \in Available \ x.pre.act : SameFeature(k, x.pre, x.post, x.c)
    \* managed features and time are protected from attribute updates, enabled or not
    /\ ManagedKey(x.c) => (~x.ok /\ FullEq(x.post, x.pre))

\* --- C11 ---------------------------------------------------------------
P_C11(x) == (IsEdit(x.c) /\ Refused(x) /\ ~IsPrim(x.c)) => (FullEq(x.post, x.pre) /\ x.emit = <<>>)

\* --- C20 ---------------------------------------------------------------
CreatesNode(x) == x.c[1] = KAddNode \/ (x.c[1] = KPaint /\ x.c[4] # 0 /\ ~Has(x.pre, x.c[4]))
NodeCreated(c) == IF c[1] = KAddNode THEN c[2] ELSE c[4]
P_C20(x) ==
    /\ (IsEdit(x.c) /\ x.ok /\ ~IsPrim(x.c)) => (Len(x.emit) = 1 /\ (CreatesNode(x) => x.emit[1] = NodeCreated(x.c)))
    /\ ((IsEdit(x.c) /\ ~x.ok) \/ IsPrim(x.c)) => x.emit = <<>>
    /\ (x.c[1] \in {KUndo, KRedo}) => (Len(x.emit) = (IF x.ret THEN 1 ELSE 0))
    /\ IsSwitch(x.c) => x.emit = <<>>

\* --- C01: the accepted edit, then undo(), then redo() --------------------
\* x additionally has u_ret, u_post, r_ret, r_post
\* (C01 quantifies over every REACHABLE state, so there is no validity antecedent: on a correct tree every
\* reachable state is valid anyway, and an edit must be invertible also in a state an earlier defect produced;
\* primitives are judged under their documented preconditions, which presuppose a valid state)
P_C01(x) == (Accepted(x) /\ (IsPrim(x.c) => (PFValid(x.pf) /\ PrimPre(x.pre, x.c)))) =>
            /\ x.u_ret /\ ObsEq(x.pre, x.u_post)
            /\ x.r_ret /\ ObsEq(x.post, x.r_post)
\* undo and redo of an accepted edit also keep the state invariants (C03..C09 "undo or redo")
P_URValid(x) == (PFValid(x.pf) /\ Accepted(x) /\ ~IsPrim(x.c)) => (Valid(x.u_post) /\ Valid(x.r_post))

\* --- C07..C09 ------------------------------------------------------------
\* (labels and nodes must correspond after a REFUSED action too - "after any sequence of user actions")
P_C07(x) == (HasSeg /\ x.pf.forest /\ x.pf.seg /\ ~IsPrim(x.c) /\ ~IsSwitch(x.c)) =>
    /\ SegOK(x.post)
    /\ (x.ok /\ x.c[1] = KPaint) => \A q \in PaintStroke(x.c) : x.post.seg[q] = x.c[4]
    /\ (x.ok /\ x.c[1] = KPaint) => \A q \in Pix \ PaintStroke(x.c) : x.post.seg[q] = x.pre.seg[q]
\* (the primitives that write pixels - AddNode, UpdateNodeSeg - notify the annotators themselves: judged under their
\*  documented preconditions)
\* (enabling WITH recomputation is the bulk path of the same measurements: judged too)
P_C08(x) == (HasSeg /\ PFValid(x.pf) /\ x.ok /\ (IsSwitch(x.c) => (x.c[1] = KEnable /\ x.c[3] = 1))
             /\ (IsPrim(x.c) => (x.c[1] \in {KPAddNode, KPUpdSeg} /\ PrimPre(x.pre, x.c))))
            => (AreaOK(x.post) /\ PosOK(x.post) /\ ShapeOK(x.post))
P_C09(x) == (HasSeg /\ PFValid(x.pf) /\ x.ok /\ ~IsPrim(x.c) /\ (IsSwitch(x.c) => x.c[1] = KEnable /\ x.c[3] = 1)) => IoUOK(x.post)

=============================================================================
