SPECIFICATION Spec
CONSTANTS
  N = 3
  T = 3
  Dims <- D_none
  Scale <- S_none
  Fixes = {"F1","F2","F3","F4","F7","F9","F10"}
  Depth = 4
  MaxId = 6
  Hist = FALSE
  Kinds = {1,2,3,4,5,6}
  EmitCat = FALSE
CONSTRAINT Bound
VIEW View
INVARIANT Inv_Valid
INVARIANT Inv_All
CHECK_DEADLOCK FALSE
