------------------------------- MODULE NameMap -------------------------------
(***************************************************************************)
(* C17: infer_node_name_map as a 5-stage pipeline over the carried state    *)
(*   left    : list of source columns not yet consumed                      *)
(*   mapping : standard / feature key -> list of source columns             *)
(* Stage k consumes columns from `left`; the final stage maps the rest to   *)
(* themselves.  Names are strings; similarity comes from the constant       *)
(* difflib table of NameMapData.tla.                                        *)
(***************************************************************************)
EXTENDS NameMapData, FiniteSets

CONSTANTS MaxLen,      \* inputs: ordered lists of distinct vocabulary names up to this length
          Table,       \* "T2" | "T3": which feature table
          ReqName,     \* "CSV" | "GEFF": which required keys
          Fixes

Fix(f) == f \in Fixes
Disp      == IF Table = "T2" THEN Disp_T2 ELSE IF Table = "T3" THEN Disp_T3 ELSE Disp_TE
Required  == IF ReqName = "CSV" THEN Req_CSV ELSE IF ReqName = "GEFF" THEN Req_GEFF ELSE Req_EDGE
\* nodes: required keys + seg_id; edges (infer_edge_name_map): the edge feature keys
StdFields == IF ReqName = "EDGE" THEN Required ELSE Required \o <<"seg_id">>
Names     == IF ReqName = "EDGE" THEN VocabE ELSE Vocab
Cutoff(s) == s[1] * 10 >= 4 * s[2]                 \* ratio >= 0.4
Better(a, b, sa, sb) == \/ sa[1] * sb[2] > sb[1] * sa[2]
                        \/ (sa[1] * sb[2] = sb[1] * sa[2] /\ Rank[a] > Rank[b])
Rng(s) == {s[k] : k \in DOMAIN s}
Remove(s, x) == SelectSeq(s, LAMBDA y : y # x)
\* difflib.get_close_matches(word, poss, n=1, cutoff=0.4): "" if none
Closest(word, poss) ==
    LET C == {p \in poss : Cutoff(Sim[word][p])}
    IN IF C = {} THEN "" ELSE CHOOSE p \in C : \A r \in C \ {p} : Better(p, r, Sim[word][p], Sim[word][r])

Has(m, k) == k \in DOMAIN m
Put(m, k, v) == [x \in DOMAIN m \cup {k} |-> IF x = k THEN v ELSE m[x]]
Empty == [x \in {} |-> <<>>]

\* ---- stage 1: exact matches of standard fields ---------------------------------
RECURSIVE Exact(_, _, _)
Exact(fs, left, m) ==
    IF fs = <<>> THEN [left |-> left, m |-> m]
    ELSE LET f == Head(fs) IN
         IF ~Has(m, f) /\ f \in Rng(left) THEN Exact(Tail(fs), Remove(left, f), Put(m, f, <<f>>))
         ELSE Exact(Tail(fs), left, m)
\* ---- stage 2: fuzzy matches of standard fields ---------------------------------
\* lower_map = {p.lower(): p}: a later column with the same lower-case spelling wins
LastWithLower(left, lw) == LET I == {k \in DOMAIN left : Lower[left[k]] = lw} IN left[CHOOSE k \in I : \A j \in I : j <= k]
RECURSIVE Fuzzy(_, _, _)
Fuzzy(fs, left, m) ==
    IF fs = <<>> \/ left = <<>> THEN [left |-> left, m |-> m]
    ELSE LET f == Head(fs) IN
         IF Has(m, f) THEN Fuzzy(Tail(fs), left, m)
         ELSE LET c == Closest(Lower[f], {Lower[p] : p \in Rng(left)}) IN
              IF c = "" THEN Fuzzy(Tail(fs), left, m)
              ELSE LET best == LastWithLower(left, c) IN Fuzzy(Tail(fs), Remove(left, best), Put(m, f, <<best>>))
\* ---- stages 3 / 4: display names (exact / fuzzy) ---------------------------------
IsMulti(k) == Cardinality({d \in DOMAIN Disp : Disp[d][1] = k}) > 1
\* fix F13: never take a key that is already matched, nor one that is the name of another
\* column still to be mapped (it would be overwritten by that column's self-mapping)
Taken(k, idx, prop, entry, m, mv) ==
    Fix("F13") /\ (Has(m, k) \/ <<k, idx>> \in DOMAIN mv \/ (k \in Rng(entry) /\ k # prop))
\* mv: partial function <<key, idx>> -> column for the multi-value matches of THIS stage
RECURSIVE DispStage(_, _, _, _, _, _)
DispStage(ps, entry, left, m, mv, fuzzy) ==
    IF ps = <<>> THEN
        \* convert multi-value matches to lists ordered by index (overwrites mapping[key])
        LET keys == {km[1] : km \in DOMAIN mv}
            ListOf(k) == LET idxs == {km[2] : km \in {x \in DOMAIN mv : x[1] = k}}
                             RECURSIVE Ord(_)
                             Ord(S) == IF S = {} THEN <<>> ELSE LET a == CHOOSE x \in S : \A y \in S : x <= y
                                                                IN <<mv[<<k, a>>]>> \o Ord(S \ {a})
                         IN Ord(idxs)
        IN [left |-> left, m |-> [x \in DOMAIN m \cup keys |-> IF x \in keys THEN ListOf(x) ELSE m[x]]]
    ELSE
      LET prop == Head(ps)
          hit  == IF fuzzy
                  THEN LET c == Closest(Lower[prop], {Lower[d] : d \in DOMAIN Disp})
                       IN IF c = "" THEN "" ELSE CHOOSE d \in DOMAIN Disp : Lower[d] = c
                  ELSE IF prop \in DOMAIN Disp THEN prop ELSE ""
      IN IF hit = "" THEN DispStage(Tail(ps), entry, left, m, mv, fuzzy)
         ELSE LET k == Disp[hit][1]
                  idx == Disp[hit][2]
              IN IF Taken(k, idx, prop, entry, m, mv) THEN DispStage(Tail(ps), entry, left, m, mv, fuzzy)
                 ELSE IF IsMulti(k)
                 THEN DispStage(Tail(ps), entry, Remove(left, prop), m,
                                [x \in DOMAIN mv \cup {<<k, idx>>} |-> IF x = <<k, idx>> THEN prop ELSE mv[x]], fuzzy)
                 ELSE DispStage(Tail(ps), entry, Remove(left, prop), Put(m, k, <<prop>>), mv, fuzzy)
NoMv == [x \in {} |-> ""]
\* ---- stage 5: the rest maps to itself ---------------------------------------------
RECURSIVE SelfMap(_, _)
SelfMap(left, m) == IF left = <<>> THEN m ELSE SelfMap(Tail(left), Put(m, Head(left), <<Head(left)>>))

Stage(k, st) ==
    CASE k = 1 -> Exact(StdFields, st.left, st.m)
      [] k = 2 -> Fuzzy(StdFields, st.left, st.m)
      [] k = 3 -> DispStage(st.left, st.left, st.left, st.m, NoMv, FALSE)
      [] k = 4 -> DispStage(st.left, st.left, st.left, st.m, NoMv, TRUE)
      [] k = 5 -> [left |-> <<>>, m |-> SelfMap(st.left, st.m)]
Infer(cols) == Stage(5, Stage(4, Stage(3, Stage(2, Stage(1, [left |-> cols, m |-> Empty]))))).m

\* ---- the property ---------------------------------------------------------------------
Uses(m, c) == Cardinality({<<k, j>> \in UNION {{<<k, j>> : j \in DOMAIN m[k]} : k \in DOMAIN m} : m[k][j] = c})
Partition(cols, m) == /\ \A c \in Rng(cols) : Uses(m, c) = 1
                      /\ \A k \in DOMAIN m : Rng(m[k]) \subseteq Rng(cols)
ExactKeys(cols, m) == \A c \in Rng(cols) : c \in Rng(StdFields) => (Has(m, c) /\ m[c] = <<c>>)
MapOK(cols, m) == Partition(cols, m) /\ ExactKeys(cols, m)

\* ---- design-level state machine: one stage per step ------------------------------------
RECURSIVE Lists(_)
Lists(n) == IF n = 0 THEN {<<>>}
            ELSE LET S == Lists(n - 1) IN S \cup {Append(s, v) : s \in {x \in S : Len(x) = n - 1}, v \in Rng(Names)}
Distinct(s) == Cardinality(Rng(s)) = Len(s)
VARIABLES cols, st, stage
vars == <<cols, st, stage>>
Init == /\ cols \in {s \in Lists(MaxLen) : Distinct(s)}
        /\ st = [left |-> cols, m |-> Empty] /\ stage = 1
Next == /\ stage <= 5
        /\ st' = Stage(stage, st) /\ stage' = stage + 1 /\ UNCHANGED cols
Spec == Init /\ [][Next]_vars
Inv_Map == stage = 6 => MapOK(cols, st.m)
\* no stage ever touches a column it does not consume: left shrinks, consumed columns are in the mapping
Inv_Left == Rng(st.left) \subseteq Rng(cols)
=============================================================================
