----------------------------- MODULE TrackLabels -----------------------------
(***************************************************************************)
(* C19, part 2: relabel_segmentation_with_track_id.                        *)
(* Detections are (frame, label) pairs; a solution is a node subset with a  *)
(* forward binary forest on it; node (t, l) has id t*K + l, time t and      *)
(* seg_id l.  All solutions over the detections are enumerated by TLC       *)
(* (Init) and printed as the inputs for the real function.                  *)
(***************************************************************************)
EXTENDS Integers, Sequences, FiniteSets, TLC

CONSTANTS T, K, PX       \* frames 0..T-1, labels 1..K per frame, pixels per frame

Dets  == (0..(T - 1)) \X (1..K)
Id(d) == d[1] * K + d[2]
Node  == {Id(d) : d \in Dets}
TimeOf(n) == (n - 1) \div K
LabOf(n)  == ((n - 1) % K) + 1
Fwd   == {e \in Node \X Node : TimeOf(e[1]) < TimeOf(e[2])}

\* label arrays tried (frames x pixels), as constants of the module
Segs == << << <<1, 2>>, <<1, 2>>, <<1, 2>> >>,          \* every detection present
           << <<1, 0>>, <<2, 1>>, <<0, 2>> >>,          \* background, missing labels
           << <<1, 1>>, <<2, 2>>, <<2, 1>> >>,          \* one region per frame
           << <<2, 1>>, <<0, 0>>, <<1, 2>> >> >>        \* an empty frame

OutDeg(E, n) == Cardinality({e \in E : e[1] = n})
InDeg(E, n)  == Cardinality({e \in E : e[2] = n})
IsForest(nd, E) == /\ \A e \in E : e[1] \in nd /\ e[2] \in nd
                   /\ \A n \in nd : InDeg(E, n) <= 1 /\ OutDeg(E, n) <= 2

VARIABLES nd, E, si
Init == /\ nd \in SUBSET Node
        /\ E \in SUBSET Fwd
        /\ IsForest(nd, E)
        /\ si \in 1..Len(Segs)
Next == UNCHANGED <<nd, E, si>>
Spec == Init /\ [][Next]_<<nd, E, si>>

\* ---- reference: unbranched segments ----------------------------------------
RECURSIVE Grow(_, _)
Grow(EE, X) == LET Y == X \cup {e[2] : e \in {f \in EE : f[1] \in X}} \cup {e[1] : e \in {f \in EE : f[2] \in X}}
               IN IF Y = X THEN X ELSE Grow(EE, Y)
LinE(EE) == {e \in EE : OutDeg(EE, e[1]) < 2}
Segment(EE, n) == Grow(LinE(EE), {n})

\* node whose detection covers pixel p of frame t (0 = none / not in the solution)
NodeAt(seg, nodes, t, p) == LET l == seg[t + 1][p] IN IF l # 0 /\ Id(<<t, l>>) \in nodes THEN Id(<<t, l>>) ELSE 0
\* the property, for an output array o (frames x pixels)
RelabelOK(seg, nodes, EE, o) ==
    \A t \in 0..(T - 1) : \A p \in 1..PX :
       LET a == NodeAt(seg, nodes, t, p) IN
       /\ (a = 0) <=> (o[t + 1][p] = 0)
       /\ a # 0 => \A u \in 0..(T - 1) : \A q \in 1..PX :
                      LET b == NodeAt(seg, nodes, u, q) IN
                      b # 0 => ((o[t + 1][p] = o[u + 1][q]) <=> (b \in Segment(EE, a)))

Emit == PrintT(<<"IN", <<si>>, nd, E>>)
=============================================================================
