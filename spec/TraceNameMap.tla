---------------------------- MODULE TraceNameMap ----------------------------
(* infer_node_name_map on REAL outputs: record = [cols, out <<<<key, <<cols>>>>, ...>>, exc] *)
EXTENDS NameMap, Json, IOUtils, TLCExt
Recs == ndJsonDeserialize(IOEnv.TRACE_FILE)
VARIABLE i
TInit == TLCSet(1, 0) /\ TLCSet(2, 0) /\ i \in 1..Len(Recs) /\ cols = <<>> /\ st = 0 /\ stage = 0
TNext == UNCHANGED <<i, vars>>
TSpec == TInit /\ [][TNext]_<<i, vars>>
Bump(k) == TLCSet(k, TLCGet(k) + 1)
ToMap(out) == [k \in {p[1] : p \in Rng(out)} |-> (CHOOSE p \in Rng(out) : p[1] = k)[2]]
DupKeys(out) == Cardinality({p[1] : p \in Rng(out)}) # Len(out)
\* non-trivial: some column is not spelled like a standard key (so stages 2-5 decide its fate)
NonTrivial(c) == \E x \in Rng(c) : x \notin Rng(StdFields)
Report == LET r == Recs[i]
              m == ToMap(r.out)
          IN /\ Bump(1) /\ (NonTrivial(r.cols) => Bump(2))
             /\ ((r.exc = "" /\ ~DupKeys(r.out) /\ MapOK(r.cols, m)) \/ PrintT(<<"FAIL", "C17", i>>))
             /\ ((r.exc = "" /\ m = Infer(r.cols)) \/ PrintT(<<"DRIFT", i>>))
Post == PrintT(<<"COUNTS", <<TLCGet(1), TLCGet(2)>>>>)
=============================================================================
