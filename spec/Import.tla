------------------------------- MODULE Import -------------------------------
(***************************************************************************)
(* C12: the import builder pipeline on a node table (tracks_from_df):       *)
(*   validate name map -> load (unique ids, renumber non-integer ids,       *)
(*   links from the parent column) -> validate graph -> construct.          *)
(* A table has R rows; row r has an id NAME idn[r] (two rows may share a     *)
(* name = duplicate id), a parent reference par[r] (0 = none, k = the id     *)
(* name k, Unknown = an id that is in no row), a time, and fixed payload     *)
(* values y = 10r+1, x = 10r+2, custom = 100+r.                              *)
(***************************************************************************)
EXTENDS Integers, Sequences, FiniteSets, TLC

CONSTANTS MaxRows, Fixes
Fix(f) == f \in Fixes
Unknown == 99
IntIds == <<3, 7, 8, 12>>          \* concrete integer ids of the id names (non-contiguous)

Tables == UNION {[R : {n}, idn : [1..n -> 1..n], par : [1..n -> (0..n) \cup {Unknown}], time : [1..n -> 0..2]] : n \in 1..MaxRows}
Drops == {"none", "time", "id", "parent_id", "pos", "badcol"}
IdKinds == {"int", "str"}

Names(t) == {t.idn[r] : r \in 1..t.R}
DupIds(t) == \E r, q \in 1..t.R : r # q /\ t.idn[r] = t.idn[q]
UnknownParent(t) == \E r \in 1..t.R : t.par[r] # 0 /\ t.par[r] \notin Names(t)
SelfLink(t) == \E r \in 1..t.R : t.par[r] = t.idn[r]
WellFormed(t, drop) == ~DupIds(t) /\ ~UnknownParent(t) /\ ~SelfLink(t) /\ drop = "none"

\* node id given to id name k: integers are kept, other ids are renumbered 1.. in order of appearance
RowOf(t, k) == CHOOSE r \in 1..t.R : t.idn[r] = k
NodeOf(t, kind, k) == IF kind = "int" THEN IntIds[k]
                      ELSE Cardinality({t.idn[r] : r \in 1..RowOf(t, k)})
\* source track labels (a mapped property like any other): 40 + first row of the row's unbranched segment
Kids(t, k) == {r \in 1..t.R : t.par[r] = k}
SegLinks(t) == {<<t.par[r], t.idn[r]>> : r \in {q \in 1..t.R : t.par[q] # 0 /\ Cardinality(Kids(t, t.par[q])) = 1}}
RECURSIVE GrowN(_, _)
GrowN(L, X) == LET Y == X \cup {e[2] : e \in {f \in L : f[1] \in X}} \cup {e[1] : e \in {f \in L : f[2] \in X}}
               IN IF Y = X THEN X ELSE GrowN(L, Y)
SrcTid(t, r) == LET S == GrowN(SegLinks(t), {t.idn[r]})
                    rows == {q \in 1..t.R : t.idn[q] \in S}
                IN 40 + (CHOOSE q \in rows : \A p \in rows : q <= p)
\* ---- the property: what a faithful import contains -------------------------------
ExpNodes(t, kind) == {<<NodeOf(t, kind, t.idn[r]), t.time[r], 10 * r + 1, 10 * r + 2, 100 + r>> : r \in 1..t.R}
\* track labels of the source, for tables that carry a (valid) track id column
ExpTids(t, kind) == {<<NodeOf(t, kind, t.idn[r]), SrcTid(t, r)>> : r \in 1..t.R}
\* source lineage labels of a CONSISTENT lineage column: 70 + first row of the row's connected component
AllLinks(t) == {<<t.par[r], t.idn[r]>> : r \in {q \in 1..t.R : t.par[q] # 0}}
SrcLid(t, r) == LET S == GrowN(AllLinks(t), {t.idn[r]})
                    rows == {q \in 1..t.R : t.idn[q] \in S}
                IN 70 + (CHOOSE q \in rows : \A p \in rows : q <= p)
ExpLids(t, kind) == {<<NodeOf(t, kind, t.idn[r]), SrcLid(t, r)>> : r \in 1..t.R}
\* C05 after construction by import: whatever a source lineage column said, two imported nodes carry the same lineage id
\* iff they are connected (lids: set of <<node, id>>, E: set of imported edges)
LidsOK(lids, E) == \A a \in lids : \A b \in lids :
                      (a[2] = b[2]) <=> (b[1] \in GrowN(E, {a[1]}))
ExpEdges(t, kind) == {<<NodeOf(t, kind, t.par[r]), NodeOf(t, kind, t.idn[r])>> : r \in {q \in 1..t.R : t.par[q] # 0}}
ImportOK(t, kind, drop, res) ==
    IF WellFormed(t, drop)
    THEN res.err = "ok" /\ res.nodes = ExpNodes(t, kind) /\ res.edges = ExpEdges(t, kind)
    ELSE res.err = "ValueError"

\* ---- the pipeline, stage by stage -----------------------------------------------------
Fail == [err |-> "ValueError", nodes |-> {}, edges |-> {}]
VARIABLES t, kind, drop, stage, res, links
vars == <<t, kind, drop, stage, res, links>>
Init == /\ t \in Tables /\ kind \in IdKinds /\ drop \in Drops
        /\ stage = "validate_name_map" /\ res = [err |-> "", nodes |-> {}, edges |-> {}] /\ links = {}
Next ==
    /\ res.err = ""
    /\ CASE stage = "validate_name_map" ->
              IF drop # "none" THEN res' = Fail /\ UNCHANGED <<stage, links>>
              ELSE stage' = "load_source" /\ UNCHANGED <<res, links>>
         [] stage = "load_source" ->
              IF DupIds(t) THEN res' = Fail /\ UNCHANGED <<stage, links>>
              ELSE IF kind = "str" /\ UnknownParent(t)
                   THEN IF Fix("F11") THEN res' = Fail /\ UNCHANGED <<stage, links>>
                        \* pinned tree: the unknown parent is mapped to NaN and the link silently dropped
                        ELSE /\ links' = {<<t.par[r], t.idn[r]>> : r \in {q \in 1..t.R : t.par[q] \in Names(t)}}
                             /\ stage' = "validate" /\ UNCHANGED res
              ELSE /\ links' = {<<t.par[r], t.idn[r]>> : r \in {q \in 1..t.R : t.par[q] # 0}}
                   /\ stage' = "validate" /\ UNCHANGED res
         [] stage = "validate" ->
              IF (\E e \in links : e[1] \notin Names(t)) \/ (\E e \in links : e[1] = e[2])
              THEN res' = Fail /\ UNCHANGED <<stage, links>>
              ELSE stage' = "construct" /\ UNCHANGED <<res, links>>
         [] stage = "construct" ->
              /\ res' = [err |-> "ok", nodes |-> ExpNodes(t, kind),
                         edges |-> {<<NodeOf(t, kind, e[1]), NodeOf(t, kind, e[2])>> : e \in links}]
              /\ UNCHANGED <<stage, links>>
    /\ UNCHANGED <<t, kind, drop>>
Spec == Init /\ [][Next]_vars
Inv_Import == res.err # "" => ImportOK(t, kind, drop, res)
=============================================================================
