------------------------------ MODULE TraceHist ------------------------------
(***************************************************************************)
(* C02 on whole sessions RECORDED FROM THE REAL CODE.  One record = one     *)
(* session = the projected state after every call.  The linear never-       *)
(* forgetting timeline (tl, cur) is rebuilt from the REAL observations and  *)
(* every step is compared with what the timeline predicts.  In lockstep the *)
(* model (Core.tla, with its own undo/redo stacks) is stepped through the   *)
(* same calls and compared with the real state (refinement over histories). *)
(***************************************************************************)
EXTENDS Decode

CONSTANTS Check

Recs == ndJsonDeserialize(IOEnv.TRACE_FILE)

VARIABLE i
Regs == {1, 2, 3, 4, 5}
ZeroRegs == \A k \in Regs : TLCSet(k, 0)
Init == ZeroRegs /\ i \in 1..Len(Recs)
Next == UNCHANGED i
Spec == Init /\ [][Next]_i

Extend(t, c, new) == t \o [k \in 1..(Len(t) - c) |-> t[Len(t) - k]] \o <<new>>

\* Walk the session; returns 0 if every step agrees with the timeline, else the first
\* step index that does not.  steps[k] = [c, ok, ret, emit, post]
RECURSIVE Walk(_, _, _, _)
Walk(steps, k, tl, cur) ==
    IF k > Len(steps) THEN 0
    ELSE
      LET st == steps[k]
          o  == DecO(st.post)
      IN IF st.c[1] = KUndo THEN
             IF cur > 1
             THEN IF st.ret /\ st.ok /\ ObsEq(tl[cur - 1], o) /\ Len(st.emit) = 1
                  THEN Walk(steps, k + 1, tl, cur - 1) ELSE k
             ELSE IF ~st.ret /\ st.ok /\ ObsEq(tl[cur], o) /\ st.emit = <<>>
                  THEN Walk(steps, k + 1, tl, cur) ELSE k
         ELSE IF st.c[1] = KRedo THEN
             IF cur < Len(tl)
             THEN IF st.ret /\ st.ok /\ ObsEq(tl[cur + 1], o) /\ Len(st.emit) = 1
                  THEN Walk(steps, k + 1, tl, cur + 1) ELSE k
             ELSE IF ~st.ret /\ st.ok /\ ObsEq(tl[cur], o) /\ st.emit = <<>>
                  THEN Walk(steps, k + 1, tl, cur) ELSE k
         ELSE IF st.ok
             THEN LET t2 == Extend(tl, cur, o) IN Walk(steps, k + 1, t2, Len(t2))
             ELSE IF ObsEq(tl[cur], o) THEN Walk(steps, k + 1, tl, cur) ELSE k

\* C20 along a session: one emission per accepted top-level edit (carrying the created node), none for a refused
\* one, and for undo / redo one emission exactly when the TIMELINE has a state to step to
CreatesNodeJ(prev, c) == c[1] = KAddNode \/ (c[1] = KPaint /\ c[4] # 0 /\ c[4] <= N /\ prev.time[c[4]] = NoT)
RECURSIVE WalkEmit(_, _, _, _, _)
WalkEmit(init, steps, k, len, cur) ==
    IF k > Len(steps) THEN 0
    ELSE
      LET st == steps[k]
          prev == IF k = 1 THEN init ELSE steps[k - 1].post
      IN IF st.c[1] = KUndo THEN
             IF Len(st.emit) = (IF cur > 1 THEN 1 ELSE 0) THEN WalkEmit(init, steps, k + 1, len, IF cur > 1 THEN cur - 1 ELSE cur) ELSE k
         ELSE IF st.c[1] = KRedo THEN
             IF Len(st.emit) = (IF cur < len THEN 1 ELSE 0) THEN WalkEmit(init, steps, k + 1, len, IF cur < len THEN cur + 1 ELSE cur) ELSE k
         ELSE IF IsSwitch(st.c) THEN (IF st.emit = <<>> THEN WalkEmit(init, steps, k + 1, len, cur) ELSE k)
         ELSE IF st.ok
             THEN IF Len(st.emit) = 1 /\ (CreatesNodeJ(prev, st.c) => st.emit[1] = NodeCreated(st.c))
                  THEN LET l2 == len + (len - cur) + 1 IN WalkEmit(init, steps, k + 1, l2, l2) ELSE k
             ELSE IF st.emit = <<>> THEN WalkEmit(init, steps, k + 1, len, cur) ELSE k

\* lockstep refinement: the model keeps its own stacks; returns 0 or the first diverging step
Dummy(k) == [j \in 1..k |-> <<>>]
ModelOf(O) == [time |-> O.time, E |-> O.E, tid |-> O.tid, lid |-> O.lid, t2n |-> O.t2n, l2n |-> O.l2n,
               maxT |-> O.maxT, maxL |-> O.maxL, cust |-> O.cust, pos |-> O.pos, area |-> O.area,
               iou |-> O.iou, seg |-> O.seg, act |-> O.act, reg |-> O.reg, shp |-> O.shp, ecust |-> O.ecust,
               U |-> Dummy(O.ulen), R |-> Dummy(O.rlen)]
SameObs(A, B) == RefEq(A, B)
RECURSIVE Lock(_, _, _)
Lock(steps, k, m) ==
    IF k > Len(steps) THEN 0
    ELSE LET st == steps[k]
             o  == DecO(st.post)
             C  == {r \in StepSet(m, st.c) : r.ok = st.ok /\ r.ret = st.ret /\ r.emit = st.emit
                                              /\ SameObs(Obs(r.s), o)}
         IN IF C = {} THEN k ELSE Lock(steps, k + 1, (CHOOSE r \in C : TRUE).s)

\* state invariants C03..C06 "after every accepted user action, undo or redo", along whole sessions
NoDupL(j) == NoDupLookups(j)
StateOK(name, j) ==
    LET O == DecO(j) IN
    CASE name = "C03" -> Forest(O)
      [] name = "C04" -> Forest(O) => TidOK(O)
      [] name = "C05" -> Forest(O) => LidOK(O)
      [] name = "C06" -> Forest(O) => (LookupOK(O) /\ NoDupL(j))
      [] name = "C07" -> Forest(O) => SegOK(O)
      [] name = "C08" -> (Forest(O) /\ SegOK(O)) => (AreaOK(O) /\ PosOK(O) /\ ShapeOK(O))
      [] name = "C09" -> (Forest(O) /\ SegOK(O)) => IoUOK(O)
      [] OTHER -> TRUE
RECURSIVE FirstBad(_, _, _)
FirstBad(steps, k, name) == IF k > Len(steps) THEN 0
                            ELSE IF ~StateOK(name, steps[k].post) THEN k ELSE FirstBad(steps, k + 1, name)
Bump(k) == TLCSet(k, TLCGet(k) + 1)
Add(k, v) == TLCSet(k, TLCGet(k) + v)
\* A stroke with an existing label outside that label's frame is not an edit of that node's mask (C07 domain
\* note). The drivers never issue one; a session REPLAYED on another tree may contain one, and is cut there.
OutOfDomain(prev, c) == c[1] = KPaint /\ c[4] # 0 /\ c[4] <= N /\ prev.time[c[4]] >= 0 /\ prev.time[c[4]] # c[2]
RECURSIVE DomLen(_, _, _)
DomLen(init, steps, k) == IF k > Len(steps) THEN Len(steps)
                          ELSE IF OutOfDomain(IF k = 1 THEN init ELSE steps[k - 1].post, steps[k].c) THEN k - 1
                          ELSE DomLen(init, steps, k + 1)
Rec == LET r == Recs[i] IN [r EXCEPT !.steps = SubSeq(r.steps, 1, DomLen(r.init, r.steps, 1))]
NUndoRedo(steps) == Cardinality({k \in 1..Len(steps) : steps[k].c[1] \in {KUndo, KRedo} /\ steps[k].ret})
Report ==
    LET init == DecO(Rec.init)
        w    == Walk(Rec.steps, 1, <<init>>, 1)
    IN /\ Bump(1) /\ Add(2, Len(Rec.steps)) /\ Add(3, NUndoRedo(Rec.steps))
       /\ (("C02" \in Check) => (w = 0 \/ PrintT(<<"FAIL", "C02", i, w>>)))
       \* C01 along sessions: every undo() / redo() is the inversion of an edit made in a reachable state
       /\ (("C01" \in Check) => (w = 0 \/ PrintT(<<"FAIL", "C01", i, w>>)))
       /\ \A name \in Check \cap {"C03", "C04", "C05", "C06", "C07", "C08", "C09"} :
             LET b == FirstBad(Rec.steps, 1, name) IN (b = 0 \/ PrintT(<<"FAIL", name, i, b>>))
       /\ (("C20" \in Check) =>
             LET e == WalkEmit(Rec.init, Rec.steps, 1, 1, 1) IN (e = 0 \/ PrintT(<<"FAIL", "C20", i, e>>)))
       \* C06: the queries are asked ONCE, after the last call of the session (asking re-sorts the lookup lists)
       /\ (("C06" \in Check /\ Len(Rec.steps) > 0) =>
             LET j == Rec.final
                 O == DecO(j)
             IN ((Forest(O) /\ TidOK(O) /\ LidOK(O) /\ TidOn(O)) => QueriesOK(j, O))
                \/ PrintT(<<"FAIL", "C06", i, Len(Rec.steps)>>))
       /\ (("REF" \in Check) =>
             LET d == Lock(Rec.steps, 1, ModelOf(init)) IN (d = 0 \/ PrintT(<<"DRIFT", i, d>>)))
Inv == Report
Post == PrintT(<<"COUNTS", [k \in Regs |-> TLCGet(k)]>>)
=============================================================================
