----------------------------- MODULE TraceExport -----------------------------
(***************************************************************************)
(* C14 / C15 / C16 on records of the REAL exporters, importers and queries, *)
(* run from catalogue states of the editing model:                          *)
(*   ro : projection before / after a read-only operation          (C16)    *)
(*   rt : projection of what export followed by import gives back   (C14)    *)
(*   sub: nodes / edges / array written by an export with a node selection   *)
(*        (C15); the ancestor closure is recomputed here from the pre-state  *)
(***************************************************************************)
EXTENDS Decode

CONSTANTS Check

Recs == ndJsonDeserialize(IOEnv.TRACE_FILE)
VARIABLE i
Regs == {1, 2, 3, 4}
Init == (\A k \in Regs : TLCSet(k, 0)) /\ i \in 1..Len(Recs)
Next == UNCHANGED i
Spec == Init /\ [][Next]_i
Bump(k) == TLCSet(k, TLCGet(k) + 1)
Rec == Recs[i]

\* ---- C16 --------------------------------------------------------------------------
Unmodified(r) == LET A == DecO(r.pre)
                     B == DecO(r.post)
                 IN /\ r.exc = ""
                    /\ FullEq(A, B) /\ A.maxT = B.maxT /\ A.maxL = B.maxL
                    /\ r.scale_pre = r.scale_post /\ r.pre.extra = r.post.extra /\ r.pre.nkeys = r.post.nkeys
                    \* the registry with every feature's metadata and the key roles (digest computed by the harness)
                    /\ r.fpre = r.fpost
\* ---- C14 --------------------------------------------------------------------------
\* what each format carries: csv = nodes, edges, time, position, track id; geff adds lineage,
\* the loaded features (area, iou) and the array; the internal format adds scale and registry
RoundTrip(r) ==
    LET A == DecO(r.pre)
        B == DecO(r.rt)
    IN /\ r.exc = ""
       /\ A.time = B.time /\ A.E = B.E /\ A.tid = B.tid
       /\ \A n \in Node : PosEq(A.pos[n], B.pos[n])
       /\ (r.fmt \in {"geff", "geff_na", "internal"} =>
             /\ A.lid = B.lid /\ A.seg = B.seg /\ r.pre.extra = r.rt.extra
             /\ (HasSeg => A.area = B.area)
             /\ ("iou" \in A.reg => \A e \in A.E : RatEq(A.iou[e], B.iou[e]))
             /\ ("cust" \in A.reg => A.cust = B.cust))
       /\ (r.fmt = "internal" => /\ r.scale_pre = r.scale_rt /\ A.reg = B.reg /\ A.cust = B.cust)
\* known finding (known_findings.json): the GEFF importer's sanity check looks the label up AT the node's
\* centroid, which lies outside a mask that is not convex
\* in-frame position of the pixel that contains the centroid of mask M (truncated per axis)
RECURSIVE CPos(_, _)
CPos(M, d) == IF d > NAx THEN 0 ELSE (SumCoord(M, d) \div Cardinality(M)) * Stride(d) + CPos(M, d + 1)
CentroidPos(M) == CPos(M, 1)
StartsWith(s, p) == Len(s) >= Len(p) /\ SubSeq(s, 1, Len(p)) = p
CentroidCheckRejects(r) ==
    LET A == DecO(r.pre) IN
    /\ r.fmt \in {"geff", "geff_na"} /\ HasSeg /\ r.exc = "ValueError: Error testing seg id:\n"
    /\ \E n \in Present(A) : MaskOf(A, n) # {} /\ CentroidPos(MaskOf(A, n)) \notin {InFrame(q) : q \in MaskOf(A, n)}
\* ---- C15 --------------------------------------------------------------------------
RECURSIVE Anc(_, _)
Anc(O, X) == LET Y == X \cup {e[1] : e \in {f \in O.E : f[2] \in X}} IN IF Y = X THEN X ELSE Anc(O, Y)
SubsetOK(r) ==
    LET O == DecO(r.pre)
        keep == Anc(O, Rng(r.sel))
    IN /\ r.exc = ""
       /\ Rng(r.out_nodes) = keep /\ Len(r.out_nodes) = Cardinality(keep)
       /\ {<<e[1], e[2]>> : e \in Rng(r.out_edges)} = {e \in O.E : e[1] \in keep /\ e[2] \in keep}
       /\ ((HasSeg /\ r.fmt \in {"geff", "geff_ow"}) =>
             /\ r.dangling = 0
             /\ \A q \in Pix : r.out_seg[q] = (IF O.seg[q] \in keep THEN O.seg[q] ELSE 0))
       \* the tif written next to a CSV carries the kept nodes' masks, labelled by track id
       /\ ((HasSeg /\ r.fmt = "csv") =>
             /\ r.dangling = 0
             /\ \A q \in Pix : r.out_seg[q] = (IF O.seg[q] \in keep THEN O.tid[O.seg[q]] ELSE 0))

Report ==
    /\ Bump(1)
    /\ CASE Rec.kind = "ro" -> ("C16" \in Check) =>
               /\ (Rec.pre.E # <<>> => Bump(2))
               /\ (Unmodified(Rec) \/ PrintT(<<"FAIL", "C16", i>>))
         \* (tracks whose POSITION feature was switched off are outside C14's domain: the FeatureDict that is saved
         \*  names a position key it no longer contains, and reading it back is refused - see DESIGN 0.5, observations)
         [] Rec.kind = "rt" -> (("C14" \in Check) /\ "pos" \in Rng(Rec.pre.reg)) =>
               /\ (Rec.pre.E # <<>> => Bump(2))
               /\ \/ RoundTrip(Rec)
                  \/ (CentroidCheckRejects(Rec) /\ PrintT(<<"KNOWN", "C14-geff-centroid-outside-mask", i>>))
                  \/ (~CentroidCheckRejects(Rec) /\ PrintT(<<"FAIL", "C14", i>>))
         [] Rec.kind = "sub" -> ("C15" \in Check) =>
               /\ ((Rec.pre.E # <<>> /\ Len(Rec.sel) < Len(Rec.out_nodes)) => Bump(2))
               /\ (SubsetOK(Rec) \/ PrintT(<<"FAIL", "C15", i>>))
Inv == Report
Post == PrintT(<<"COUNTS", <<TLCGet(1), TLCGet(2)>>>>)
=============================================================================
