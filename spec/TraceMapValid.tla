--------------------------- MODULE TraceMapValid ---------------------------
(* CSVTracksBuilder.validate_name_map on REAL outcomes.
   record = [m |-> the choices (see MapValid.tla), err |-> "ok" | exception name,
             keys |-> node map keys after the call, e2e |-> outcome of tracks_from_df with the same map ("" = not run)] *)
EXTENDS MapValid, Json, IOUtils, TLCExt
Recs == ndJsonDeserialize(IOEnv.TRACE_FILE)
VARIABLE i
TInit == TLCSet(1, 0) /\ TLCSet(2, 0) /\ i \in 1..Len(Recs) /\ m = 0 /\ stage = "" /\ res = ""
TNext == UNCHANGED <<i, vars>>
TSpec == TInit /\ [][TNext]_<<i, vars>>
Rng(s) == {s[j] : j \in DOMAIN s}
Bump(j) == TLCSet(j, TLCGet(j) + 1)
Dec(r) == [tm |-> r.m.tm, idm |-> r.m.idm, pos |-> r.m.pos, leg |-> r.m.leg, cu |-> r.m.cu, ax |-> r.m.ax,
           seg |-> r.m.seg, em |-> r.m.em]
\* node map keys the model expects after preprocessing (only when the call reaches it: always)
ExpKeys(mm) == LET p == Pre(mm) IN
    (IF p.tm # "absent" THEN {"time"} ELSE {}) \cup (IF p.idm # "absent" THEN {"id"} ELSE {}) \cup {"parent_id"}
    \cup (IF p.pos # "absent" THEN {"pos"} ELSE {})
    \cup (CASE p.leg = "yx" -> {"y", "x"} [] p.leg = "x" -> {"x"} [] p.leg \in {"zyx", "zbad", "ybad3"} -> {"z", "y", "x"}
             [] OTHER -> {})
    \cup (IF p.cu # "absent" THEN {"custom"} ELSE {}) \cup (IF p.ax # "absent" THEN {"ellipse_axis_radii"} ELSE {})
Report == LET r == Recs[i]
              mm == Dec(r)
          IN /\ Bump(1) /\ (MustReject(mm) => Bump(2))
             /\ mm \in Maps
             \* the property: flawed maps are refused with ValueError, flawless ones accepted - by the validator and
             \* (where it was run) by the whole import, which must not import anything from a flawed map
             /\ ((MapOK(mm, r.err) /\ (r.e2e # "" => MapOK(mm, r.e2e))) \/ PrintT(<<"FAIL", "C12", i>>))
             /\ ((r.err = Model(mm) /\ Rng(r.keys) = ExpKeys(mm)) \/ PrintT(<<"DRIFT", i>>))
Post == PrintT(<<"COUNTS", <<TLCGet(1), TLCGet(2)>>>>)
=============================================================================
