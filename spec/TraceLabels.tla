---------------------------- MODULE TraceLabels ----------------------------
(* ensure_unique_labels on REAL outputs: record = [inp |-> frames, out |-> frames]  *)
EXTENDS Labels, Json, IOUtils, TLCExt
Recs == ndJsonDeserialize(IOEnv.TRACE_FILE)
VARIABLE i
\* the variables of the design-level spec are unused here
TInit == TLCSet(1, 0) /\ TLCSet(2, 0) /\ i \in 1..Len(Recs) /\ inp = 0 /\ out = 0 /\ idx = 0 /\ cm = 0
TNext == UNCHANGED <<i, vars>>
TSpec == TInit /\ [][TNext]_<<i, vars>>
Dec(a) == [f \in Frames |-> [p \in Pixels |-> a[f][p]]]
Bump(k) == TLCSet(k, TLCGet(k) + 1)
NonTrivial(a) == \E f, g \in Frames : f # g /\ LabelsIn(a, f) \cap LabelsIn(a, g) # {}
Report == LET a == Dec(Recs[i].inp)
              o == Dec(Recs[i].out)
          IN /\ Bump(1) /\ (NonTrivial(a) => Bump(2))
             /\ (UniqueOK(a, o) \/ PrintT(<<"FAIL", "C19", i>>))
             /\ (o = Model(a) \/ PrintT(<<"DRIFT", i>>))
Post == PrintT(<<"COUNTS", <<TLCGet(1), TLCGet(2)>>>>)
=============================================================================
