------------------------------- MODULE Labels -------------------------------
(***************************************************************************)
(* C19, part 1: funtracks.utils.ensure_unique_labels as a frame loop with  *)
(* the carried variable curr_max.                                          *)
(*   input : F frames (or H hypotheses x T frames, flattened) of PX pixels *)
(*           with labels 0..L (0 = background)                             *)
(*   output: no label in two frames, each frame's partition unchanged      *)
(***************************************************************************)
EXTENDS Integers, Sequences, FiniteSets, TLC

CONSTANTS F, PX, L, Fixes

Fix(f) == f \in Fixes
Frames == 1..F
Pixels == 1..PX
MaxOf(fr) == LET S == {fr[p] : p \in Pixels} IN CHOOSE m \in S : \A x \in S : x <= m
Max2(a, b) == IF a >= b THEN a ELSE b

\* one loop iteration: frame[frame != 0] += curr_max; curr_max = max(frame)
StepFrame(fr, cm) ==
    LET g == [p \in Pixels |-> IF fr[p] # 0 THEN fr[p] + cm ELSE 0]
    IN [f |-> g, m |-> IF Fix("F15") THEN Max2(cm, MaxOf(g)) ELSE MaxOf(g)]

VARIABLES inp, out, idx, cm
vars == <<inp, out, idx, cm>>
Init == /\ inp \in [Frames -> [Pixels -> 0..L]]
        /\ out = inp /\ idx = 1 /\ cm = 0
Next == /\ idx <= F
        /\ LET r == StepFrame(out[idx], cm) IN out' = [out EXCEPT ![idx] = r.f] /\ cm' = r.m
        /\ idx' = idx + 1 /\ UNCHANGED inp
Spec == Init /\ [][Next]_vars

\* ---- the property, on (input, output) pairs --------------------------------
LabelsIn(a, f) == {a[f][p] : p \in Pixels} \ {0}
Unique(o) == \A f, g \in Frames : f # g => LabelsIn(o, f) \cap LabelsIn(o, g) = {}
SamePartition(i, o) == \A f \in Frames : \A p, q \in Pixels :
                          /\ (i[f][p] = 0) <=> (o[f][p] = 0)
                          /\ (i[f][p] = i[f][q]) <=> (o[f][p] = o[f][q])
UniqueOK(i, o) == Unique(o) /\ SamePartition(i, o)
\* functional form of the whole loop (used to compare with the real output)
RECURSIVE Run(_, _, _)
Run(a, k, c) == IF k > F THEN a
                ELSE LET r == StepFrame(a[k], c) IN Run([a EXCEPT ![k] = r.f], k + 1, r.m)
Model(i) == Run(i, 1, 0)

Done == idx = F + 1
Inv_Unique == Done => UniqueOK(inp, out)
Inv_Model  == Done => out = Model(inp)
=============================================================================
