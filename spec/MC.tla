-------------------------------- MODULE MC --------------------------------
(***************************************************************************)
(* Model-checking harness over Core/Props: reachable-state exploration of  *)
(* the editing core, with every listed property checked on EVERY call of   *)
(* the alphabet from every reachable state (accepted or refused), each     *)
(* followed by undo and redo.                                              *)
(***************************************************************************)
EXTENDS Props

CONSTANTS
    Depth,      \* bound on the number of calls on a path
    MaxId,      \* bound on track / lineage ids (state constraint)
    Hist,       \* TRUE: keep the undo/redo stacks in the state and offer undo/redo as calls
    Kinds,      \* call kinds offered by Next
    EmitCat,    \* TRUE: print one access path per distinct state (the catalogue)
    RegCust,    \* TRUE: the custom node attribute is registered as a feature
    ExtraAct,   \* features enabled on top of the defaults, e.g. {"iou"}
    Seeds,      \* set of call sequences; exploration starts after each of them
    MaxStroke   \* 0: every stroke (pixel subset of a frame) is fired; k > 0: only strokes of <= k pixels

VARIABLES S, path

DefaultAct == (IF HasSeg THEN {"tid", "lid", "pos", "area"} ELSE {"tid", "lid"}) \cup ExtraAct
DefaultReg == (IF HasSeg THEN {"time", "tid", "lid", "pos", "area"} ELSE {"time", "tid", "lid", "pos"})
              \cup (IF RegCust THEN {"cust"} ELSE {}) \cup ExtraAct

EmptyS == [time |-> [n \in Node |-> NoT], E |-> {}, tid |-> [n \in Node |-> None],
           lid |-> [n \in Node |-> None], t2n |-> {}, l2n |-> {}, maxT |-> 0, maxL |-> 0,
           cust |-> [n \in Node |-> None], pos |-> [n \in Node |-> NoPos],
           area |-> [n \in Node |-> -1], iou |-> [e \in Node \X Node |-> NoIoU],
           seg |-> [q \in Pix |-> 0], act |-> DefaultAct, reg |-> DefaultReg,
           shp |-> [k \in ShapeKeys |-> [n \in Node |-> NoShape]], ecust |-> [e \in Node \X Node |-> None],
           U |-> <<>>, R |-> <<>>]

\* feature masks offered to enable / disable (bits: area iou circ lid pos tid perim axes, 256 = unknown)
SwitchMasks == IF HasSeg THEN {1, 2, 4, 8, 3, 5, 6, 12, 16, 64, 128, 15, 256, 257}
               ELSE {8, 32, 40, 1, 256, 264}
\* MaxStroke = 99: a fixed menu of strokes for 3x3x3 frames (in-frame position = 9z + 3y + x):
\* the 2x2x2 cube at the origin, the cube at (1,1,1), the slab z = 0, the column x = y = 1, one corner voxel,
\* the centre voxel, half of the first cube
StrokeMenu == {1 + 2 + 8 + 16 + 512 + 1024 + 4096 + 8192,
               8192 + 16384 + 65536 + 131072 + 4194304 + 8388608 + 33554432 + 67108864,
               511, 16 + 8192 + 4194304, 1, 8192, 1 + 2 + 8 + 16}
StrokeOK(b) == MaxStroke = 0 \/ (MaxStroke = 99 /\ b \in StrokeMenu)
               \/ (MaxStroke \in 1..98 /\ Cardinality({r \in 0..(P - 1) : Bit(b, r)}) <= MaxStroke)
StrokeSet == IF MaxStroke = 99 THEN StrokeMenu ELSE {x \in 1..(2 ^ P - 1) : StrokeOK(x)}
\* construction modes (call 12): ids kept / removed, direct / from_tracks / with a FeatureDict, region features removed
RebuildModes == IF HasSeg THEN {0, 1, 2, 3, 4, 5, 6, 7, 8, 11, 12, 15, 16} ELSE {0, 1, 2, 3, 4, 5, 6, 7, 16}
TwoFrameBits == IF MaxStroke = 99 THEN {1} ELSE {2 ^ r : r \in 0..(P - 1)}
\* the call alphabet offered in state s (refused calls included)
Ids(s) == 1..(IF s.maxT + 2 <= MaxId THEN s.maxT + 2 ELSE MaxId)
Calls(s) ==
    (IF KAddNode \in Kinds /\ ~HasSeg
       THEN {<<KAddNode, n, t, i, f>> : n \in Node, t \in Times, i \in Ids(s), f \in {0, 1}}
            \cup {<<KAddNode, n, t, i, f>> : n \in Node, t \in Times, i \in {1, s.maxT + 1}, f \in {2, 3, 16, 17, 32, 33}}
            \cup {<<KAddNode, n, 0, 1, f>> : n \in Node, f \in {4, 8}}
       ELSE {})
    \cup (IF KAddEdge \in Kinds THEN {<<KAddEdge, u, v, f, 0>> : u \in Node, v \in Node, f \in {0, 1}} ELSE {})
    \cup (IF KDelEdge \in Kinds THEN {<<KDelEdge, u, v, 0, 0>> : u \in Node, v \in Node} ELSE {})
    \cup (IF KDelNode \in Kinds THEN {<<KDelNode, n, 0, 0, 0>> : n \in Node} ELSE {})
    \cup (IF KSwap \in Kinds THEN {<<KSwap, a, b, 0, 0>> : a \in Node, b \in Node} ELSE {})
    \cup (IF KSetAttr \in Kinds THEN {<<KSetAttr, n, k, 1, 0>> : n \in Node, k \in (1..(IF HasSeg THEN 8 ELSE 4)) \cup {9, 10}} ELSE {})
    \cup (IF KPaint \in Kinds /\ HasSeg
            THEN \* track id and force only matter when the stroke creates a node
                 {<<KPaint, t, b, v, 2 * i + f>> : t \in Times, b \in StrokeSet,
                                                    v \in {w \in 1..N : ~Has(s, w)}, i \in {1, s.maxT + 1}, f \in {0, 1}}
                 \cup {<<KPaint, t, b, v, 2>> : t \in Times, b \in StrokeSet, v \in {0} \cup Present(s)}
                 \* strokes over two time points (t >= T): one in-frame pixel in frames t - T and t - T + 1
                 \cup {<<KPaint, T + t, b, v, 2 * i + f>> : t \in 0..(T - 2), b \in TwoFrameBits,
                                                            v \in {w \in 1..N : ~Has(s, w)}, i \in {1, s.maxT + 1}, f \in {0, 1}}
                 \cup {<<KPaint, T + t, b, v, 2>> : t \in 0..(T - 2), b \in TwoFrameBits, v \in {0} \cup Present(s)}
            ELSE {})
    \cup (IF KEnable \in Kinds
            THEN {<<KEnable, m, r, 0, 0>> : m \in SwitchMasks, r \in {0, 1}} \cup {<<KDisable, m, 0, 0, 0>> : m \in SwitchMasks}
            ELSE {})
    \cup (IF KPAddNode \in Kinds
            THEN {<<KPAddNode, n, t, i, l>> : n \in Node, t \in Times, i \in 1..(s.maxT + 1), l \in {0, 1, s.maxL + 1}}
                 \cup {<<KPDelNode, n, 0, 0, 0>> : n \in Node}
                 \cup {<<KPAddEdge, u, v, 0, 0>> : u \in Node, v \in Node}
                 \cup {<<KPDelEdge, u, v, 0, 0>> : u \in Node, v \in Node}
                 \cup {<<KPUpdTids, n, i, l, 0>> : n \in Node, i \in 1..(s.maxT + 1), l \in {0, 1, s.maxL + 1}}
                 \cup {<<KPUpdAttrs, n, k, 2, 0>> : n \in Node, k \in {1, 2}}
                 \cup (IF HasSeg THEN {<<KPUpdSeg, n, b, a, 0>> : n \in Node, b \in 1..(2 ^ P - 1), a \in {0, 1}} ELSE {})
            ELSE {})
    \cup (IF KRebuild \in Kinds THEN {<<KRebuild, m, 0, 0, 0>> : m \in RebuildModes} ELSE {})
    \cup (IF Hist THEN {<<KUndo, 0, 0, 0, 0>>, <<KRedo, 0, 0, 0, 0>>} ELSE {})

\* a paint with an existing label must stay in that label's frame (C07 domain note)
InDomain(s, c) == (c[1] = KPaint /\ c[2] < T) => (c[4] # 0 /\ Has(s, c[4]) => s.time[c[4]] = c[2])

\* calls used to EXPLORE (a subset of Calls: refused variants and most id / attribute
\* variety add no new structure; they are still FIRED from every state, see AllX)
UsedT(s) == {s.tid[n] : n \in Present(s)}
ExpCalls(s) ==
    (IF KAddNode \in Kinds /\ ~HasSeg
       THEN {<<KAddNode, n, t, i, f>> : n \in Node \ Present(s), t \in Times,
                i \in UsedT(s) \cup {s.maxT + 1} \cup (IF s.maxT <= 1 THEN {s.maxT + 2} ELSE {}), f \in {0, 1}}
       ELSE {})
    \cup {c \in Calls(s) : c[1] \in {KAddEdge, KDelEdge, KDelNode, KSwap, KUndo, KRedo}}
    \* strokes of at most two pixels explore; all strokes are fired
    \cup {c \in Calls(s) : c[1] = KPaint /\ c[2] < T /\ (MaxStroke = 99 \/ Cardinality(Stroke(c[2], c[3])) <= 2)}
    \cup (IF KSetAttr \in Kinds THEN {<<KSetAttr, 1, 1, 1, 0>>} ELSE {})
    \* switching explores with recomputation only (stale values after recompute=False are allowed)
    \cup {c \in Calls(s) : (c[1] = KEnable /\ c[3] = 1 /\ c[2] < 256) \/ (c[1] = KDisable /\ c[2] < 256 /\ ~Bit(c[2], 5))}


Trim(s) == IF Hist THEN s ELSE [s EXCEPT !.U = <<>>, !.R = <<>>]

\* seed paths (cfg files cannot write tuples): exploration starts from the state after each
SeedsNone == {<<>>}
\* 1x3 / 2x2 frames: a division 1@0 -> {2@1, 3@1}; a chain with skip edge 1@0 -> 3@2;
\* a chain 1@0 -> 2@1 -> 3@2 with overlapping masks
SeedsSeg == {<<>>,
             << <<KPaint,0,3,1,2>>, <<KPaint,1,1,2,2>>, <<KPaint,1,4,3,4>>, <<KAddEdge,1,3,0,0>> >>,
             << <<KPaint,0,3,1,2>>, <<KPaint,2,6,3,2>> >>,
             << <<KPaint,0,3,1,2>>, <<KPaint,1,2,2,2>>, <<KPaint,2,6,3,2>> >>}
\* no segmentation: a division with grandchildren needs 4-5 nodes
SeedsStruct4 == {<<>>,
             << <<KAddNode,1,0,1,0>>, <<KAddNode,2,1,1,0>>, <<KAddNode,3,1,2,0>>, <<KAddEdge,1,3,0,0>>, <<KAddNode,4,2,3,0>> >>}
\* 4-node universe, started from the shapes that the forced / division branches need:
\* division; division with children in different frames; division with grandchild; chain;
\* skip edge; three separate lineages
SeedsStruct4s == {
   << <<KAddNode,1,0,1,0>>, <<KAddNode,2,1,1,0>>, <<KAddNode,3,1,2,0>>, <<KAddEdge,1,3,0,0>> >>,
   << <<KAddNode,1,0,1,0>>, <<KAddNode,2,1,1,0>>, <<KAddNode,3,2,2,0>>, <<KAddEdge,1,3,0,0>> >>,
   << <<KAddNode,1,0,1,0>>, <<KAddNode,2,1,1,0>>, <<KAddNode,3,1,2,0>>, <<KAddEdge,1,3,0,0>>, <<KAddNode,4,2,3,0>> >>,
   << <<KAddNode,1,0,1,0>>, <<KAddNode,2,1,1,0>>, <<KAddNode,3,2,1,0>> >>,
   << <<KAddNode,1,0,1,0>>, <<KAddNode,3,2,1,0>> >>,
   << <<KAddNode,1,0,1,0>>, <<KAddNode,2,1,2,0>>, <<KAddNode,3,0,3,0>>, <<KAddNode,4,1,3,0>> >> }
\* 5 nodes, 4 frames: two divisions in one lineage; a division with a skip-edge arm; a division below a chain with a grandchild below the
\* first daughter; a 4-frame chain; a chain with two skip edges
SeedsStruct5s == {
   << <<KAddNode,1,0,1,0>>, <<KAddNode,2,1,1,0>>, <<KAddNode,3,1,2,0>>, <<KAddEdge,1,3,0,0>>,
      <<KAddNode,4,2,3,0>>, <<KAddNode,5,2,4,0>>, <<KAddEdge,2,5,0,0>> >>,
   << <<KAddNode,1,0,1,0>>, <<KAddNode,2,1,1,0>>, <<KAddNode,3,2,1,0>>, <<KAddNode,4,2,2,0>>, <<KAddEdge,2,4,0,0>>,
      <<KAddNode,5,3,3,0>> >>,
   << <<KAddNode,1,0,1,0>>, <<KAddNode,2,1,1,0>>, <<KAddNode,3,2,1,0>>, <<KAddNode,4,3,1,0>> >>,
   << <<KAddNode,1,0,1,0>>, <<KAddNode,3,2,1,0>>, <<KAddNode,2,0,2,0>>, <<KAddNode,4,3,2,0>> >>,
   \* a division whose second arm is a skip edge: 1@0 -> 2@1 and 1@0 -> 3@3
   << <<KAddNode,1,0,1,0>>, <<KAddNode,2,1,1,0>>, <<KAddNode,3,3,2,0>>, <<KAddEdge,1,3,0,0>> >> }
\* 6 labels, 5 of them used by a lineage with two divisions (1 -> {2, 3}, 2 -> {4, 5}) on 1x3 frames
SeedsSeg6s == {
   << <<KPaint,0,3,1,2>>, <<KPaint,1,1,2,2>>, <<KPaint,1,4,3,4>>, <<KAddEdge,1,3,0,0>>,
      <<KPaint,2,1,4,6>>, <<KPaint,2,4,5,8>>, <<KAddEdge,2,5,0,0>> >> }
\* 5 labels on 1x3 frames, for the BULK IoU computation: (i) node 1@0 divides into 3@1 and 5@2 (a skip edge) while
\* node 2@0 has a child 4@1 - the out-edges of frame 0 alternate between target frames 1, 2, 1;
\* (ii) a skip edge 1@0 -> 3@2 next to an overlapping consecutive edge 2@1 -> 4@2
\* 3x3x3 frames (stroke menu): two overlapping cubes in consecutive frames on one track
SeedsSeg333 == {<<>>, << <<KPaint,0,13851,1,2>>, <<KPaint,1,113467392,2,2>> >>}
SeedsSeg5s == {
   << <<KPaint,0,1,1,2>>, <<KPaint,0,4,2,4>>, <<KPaint,1,3,3,2>>, <<KPaint,2,1,5,6>>, <<KAddEdge,1,5,0,0>>, <<KPaint,1,4,4,4>> >>,
   << <<KPaint,0,1,1,2>>, <<KPaint,2,1,3,2>>, <<KPaint,1,6,2,4>>, <<KPaint,2,6,4,4>> >>,
   \* (iii) node order by time 0, 1, 0: the first node of frame 0 has an out-edge with overlapping masks, a second node
   \* of frame 0 is created after the node of frame 1
   << <<KPaint,0,3,1,2>>, <<KPaint,1,3,2,2>>, <<KPaint,0,4,3,4>> >> }
\* feature-switching suites: states in which a feature is REGISTERED AND ACTIVE BUT STALE (disabled, edited, enabled
\* again without recomputation) - from there "enable with recomputation" must still yield the reference values
SeedsFeatSeg == {
   << <<KPaint,0,3,1,2>>, <<KPaint,1,1,2,2>>, <<KDisable,1,0,0,0>>,  <<KPaint,1,2,2,2>>, <<KEnable,1,0,0,0>> >>,
   << <<KPaint,0,3,1,2>>, <<KPaint,1,1,2,2>>, <<KDisable,2,0,0,0>>,  <<KPaint,1,2,2,2>>, <<KEnable,2,0,0,0>> >>,
   << <<KPaint,0,3,1,2>>, <<KPaint,1,1,2,2>>, <<KDisable,16,0,0,0>>, <<KPaint,1,2,2,2>>, <<KEnable,16,0,0,0>> >> }
SeedsFeatNs == {
   << <<KAddNode,1,0,1,0>>, <<KAddNode,2,1,1,0>>, <<KDisable,8,0,0,0>>,  <<KDelEdge,1,2,0,0>>, <<KEnable,8,0,0,0>> >>,
   << <<KAddNode,1,0,1,0>>, <<KAddNode,2,1,1,0>>, <<KDisable,40,0,0,0>>, <<KDelEdge,1,2,0,0>>, <<KEnable,40,0,0,0>> >>,
   \* lineage ids switched off, an edit that splits a component, then track ids switched off as well
   << <<KAddNode,1,0,1,0>>, <<KAddNode,2,1,1,0>>, <<KDisable,8,0,0,0>>,  <<KDelEdge,1,2,0,0>>, <<KDisable,32,0,0,0>> >> }
RECURSIVE RunPath(_, _)
RunPath(s, p) == IF p = <<>> THEN s ELSE RunPath(Trim(StepOrd(s, Head(p), 1).s), Tail(p))

IsPrefixOf(a, b) == Len(a) <= Len(b) /\ SubSeq(b, 1, Len(a)) = a
\* (seeds may be longer than 5 calls)
SeedLen(p) == LET L == {Len(sd) : sd \in {x \in Seeds : IsPrefixOf(x, p)}} IN CHOOSE m \in L : \A k \in L : k <= m
Init == \E p \in Seeds : S = RunPath(EmptyS, p) /\ path = p
Next == \E c \in ExpCalls(S) : InDomain(S, c) /\ \E r \in StepSet(S, c) :
           /\ r.s # S
           /\ S' = Trim(r.s)
           /\ path' = Append(path, c)
Spec == Init /\ [][Next]_<<S, path>>

Bound == Len(path) <= Depth + SeedLen(path) /\ S.maxT <= MaxId /\ S.maxL <= MaxId
\* Track / lineage ids matter only through equality and through "larger than all ids in
\* use", so states are identified up to an order-preserving renaming of the ids.
Rank(X, i) == Cardinality({j \in X : j <= i})
UsedL(s) == {s.lid[n] : n \in Present(s)}
View  == IF LookupOK(Obs(S))
         THEN << S.time, S.E, [n \in Node |-> Rank(UsedT(S), S.tid[n])], [n \in Node |-> Rank(UsedL(S), S.lid[n])],
                 S.maxT \in UsedT(S), S.maxL \in UsedL(S), S.cust, S.pos, S.area, S.iou, S.seg, S.act, S.reg, S.shp, S.ecust,
                 IF Hist THEN <<S.U, S.R>> ELSE <<>> >>
         ELSE << S >>

(***************************************************************************)
(* Every transition out of the current state, as a property record         *)
(***************************************************************************)
\* o = Obs(S) and pf = PF(o) are computed ONCE per state by the invariants below (LET values are cached)
X(c, r, o, pf) ==
    LET acc == r.ok /\ IsEdit(c)
        pt  == PrimTriple(S, c)
        u   == IF IsPrim(c) THEN [s |-> pt[2].s, ret |-> pt[2].ok]
               ELSE IF acc THEN Undo(r.s) ELSE [s |-> r.s, ret |-> FALSE]
        rr  == IF IsPrim(c) THEN [s |-> pt[3].s, ret |-> pt[3].ok]
               ELSE IF acc THEN Redo(u.s) ELSE [s |-> r.s, ret |-> FALSE]
    IN [pre |-> o, pf |-> pf, c |-> c, ok |-> r.ok, err |-> r.err, emit |-> r.emit, ret |-> r.ret,
        post |-> Obs(r.s), u_ret |-> u.ret, u_post |-> Obs(u.s), r_ret |-> rr.ret, r_post |-> Obs(rr.s)]
AllXof(o, pf) == UNION {{X(c, r, o, pf) : r \in StepSet(S, c)} : c \in {d \in Calls(S) : InDomain(S, d)}}
AllX == LET o == Obs(S) IN AllXof(o, PF(o))

\* one pass over all transitions; a failing property prints its name and the call
Chk(name, b, x) == b \/ ~PrintT(<<"FAIL", name, x.c, path>>)
\* (enabling WITHOUT recomputation is allowed to leave stale values: paths through such a call are exempt)
NoRecompute(p) == \E k \in 1..Len(p) : p[k][1] = KEnable /\ p[k][3] = 0
Inv_Valid == NoRecompute(path) \/ Valid(Obs(S))
Inv_All == LET o == Obs(S)
               pf == PF(o)
           IN \A x \in AllXof(o, pf) :
    /\ Chk("C01", P_C01(x), x) /\ Chk("C03", P_C03(x), x) /\ Chk("C04", P_C04(x), x)
    /\ Chk("C05", P_C05(x), x) /\ Chk("C06", P_C06(x), x) /\ Chk("C07", P_C07(x), x)
    /\ Chk("C08", P_C08(x), x) /\ Chk("C09", P_C09(x), x) /\ Chk("C11", P_C11(x), x)
    /\ Chk("C10", P_C10(x), x)
    /\ Chk("C20", P_C20(x), x) /\ Chk("UR", P_URValid(x), x)
\* single-property variants (used to attribute a design-level failure)
Inv_C01 == \A x \in AllX : P_C01(x)
Inv_C03 == \A x \in AllX : P_C03(x)
Inv_C04 == \A x \in AllX : P_C04(x)
Inv_C05 == \A x \in AllX : P_C05(x)
Inv_C06 == \A x \in AllX : P_C06(x)
Inv_C10 == \A x \in AllX : Chk("C10", P_C10(x), x)
Inv_C11 == \A x \in AllX : P_C11(x)
Inv_C20 == \A x \in AllX : P_C20(x)

Emit == (EmitCat /\ Bound) => PrintT(<<"CAT", path>>)
=============================================================================
