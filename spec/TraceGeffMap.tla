---------------------------- MODULE TraceGeffMap ----------------------------
(* import_from_geff with custom-property name maps on REAL stores:
   record = [map <<<<target, source>>, ...>>, got <<<<target, source-name-whose-values-it-carries>>, ...>>,
             nodes_ok, edges_ok, exc]                                                         *)
EXTENDS GeffMap, Json, IOUtils, TLCExt
Recs == ndJsonDeserialize(IOEnv.TRACE_FILE)
VARIABLE i
TInit == TLCSet(1, 0) /\ TLCSet(2, 0) /\ i \in 1..Len(Recs) /\ m = <<>> /\ k = 0 /\ renamed = <<>>
TNext == UNCHANGED <<i, vars>>
TSpec == TInit /\ [][TNext]_<<i, vars>>
Rng(s) == {s[j] : j \in DOMAIN s}
Bump(j) == TLCSet(j, TLCGet(j) + 1)
Report == LET r == Recs[i]
              mm == [j \in 1..Len(r.map) |-> <<r.map[j][1], r.map[j][2]>>]
              res == [x \in {g[1] : g \in Rng(r.got)} |-> (CHOOSE g \in Rng(r.got) : g[1] = x)[2]]
              chained == \E a, b \in DOMAIN mm : a # b /\ mm[a][1] = mm[b][2]
          IN /\ Bump(1) /\ (chained => Bump(2))
             /\ ((r.exc = "" /\ r.nodes_ok /\ r.edges_ok /\ MapOK(mm, res)) \/ PrintT(<<"FAIL", "C12", i>>))
Post == PrintT(<<"COUNTS", <<TLCGet(1), TLCGet(2)>>>>)
=============================================================================
