------------------------------ MODULE MCHist ------------------------------
(***************************************************************************)
(* C02 at design level: the two-stack ActionHistory of the code (undone     *)
(* inverses are re-recorded when a new action arrives) refines a linear,    *)
(* never-forgetting timeline of visited states.                             *)
(*   tl  : ghost sequence of observable states visited                      *)
(*   cur : position on it                                                   *)
(* All sequences over {HistCalls, undo, redo} up to length Depth.           *)
(***************************************************************************)
EXTENDS Props

CONSTANTS Depth, MaxId, HistCalls, RegCust, Prefix

VARIABLES S, tl, cur, n

\* edit alphabets (cfg files cannot write tuples). Each mixes plain, nesting and forced actions.
\* A: add 1@0 / add 2@1 same track / add 3@1 new track / forced edge 1->3 (division or re-parenting)
\*    / delete node 2 / swap predecessors of 2 and 3 (nests 2 deletes + 2 adds)
HC_A == {<<1,1,0,1,0>>, <<1,2,1,1,0>>, <<1,3,1,2,0>>, <<2,1,3,1,0>>, <<4,2,0,0,0>>, <<5,2,3,0,0>>}
\* B: chain 1@0 -> 3@2 with skip edge, forced insertion of 2@1, edge deletions, attribute update
HC_B == {<<1,1,0,1,0>>, <<1,3,2,1,0>>, <<1,2,1,1,1>>, <<3,1,3,0,0>>, <<3,1,2,0,0>>, <<6,1,1,1,0>>, <<4,1,0,0,0>>}
\* C: divisions: 1@0 with children 2@1, 3@1; forced add into the divided track; delete the dividing node
\* D (4 nodes, after the prefix PX_D = division 1@0 -> {2@2, 3@2}): forced add of 4@1 into the track of
\*    child 2 (nests UserDeleteEdge of a division edge), forced add into the dividing track (nests two),
\*    delete the dividing node, forced re-parenting
PX_none == <<>>
PX_D == << <<1,1,0,1,0>>, <<1,2,2,1,0>>, <<1,3,2,2,0>>, <<2,1,3,0,0>> >>
HC_D == {<<1,4,1,3,1>>, <<1,4,1,1,1>>, <<4,1,0,0,0>>, <<2,4,2,1,0>>, <<4,4,0,0,0>>}
\* E (after PX_E = three lineages: 1@0 | 2@1 | 3@0 -> 4@1): join / split lineages so that ids disappear and
\*    re-appear through undo, then allocate fresh ones
PX_E == << <<1,1,0,1,0>>, <<1,2,1,2,0>>, <<1,3,0,3,0>>, <<1,4,1,3,0>> >>
HC_E == {<<2,1,2,0,0>>, <<3,3,4,0,0>>, <<3,1,2,0,0>>, <<2,3,2,1,0>>, <<4,3,0,0,0>>}
HC_C == {<<1,1,0,1,0>>, <<1,2,1,1,0>>, <<1,3,1,1,0>>, <<2,1,3,0,0>>, <<1,3,2,1,1>>, <<4,1,0,0,0>>, <<3,1,2,0,0>>}

DefaultAct == IF HasSeg THEN {"tid", "lid", "pos", "area"} ELSE {"tid", "lid"}
DefaultReg == (IF HasSeg THEN {"time", "tid", "lid", "pos", "area"} ELSE {"time", "tid", "lid", "pos"})
              \cup (IF RegCust THEN {"cust"} ELSE {})
EmptyS == [time |-> [x \in Node |-> NoT], E |-> {}, tid |-> [x \in Node |-> None],
           lid |-> [x \in Node |-> None], t2n |-> {}, l2n |-> {}, maxT |-> 0, maxL |-> 0,
           cust |-> [x \in Node |-> None], pos |-> [x \in Node |-> NoPos],
           area |-> [x \in Node |-> -1], iou |-> [e \in Node \X Node |-> NoIoU],
           seg |-> [q \in Pix |-> 0], act |-> DefaultAct, reg |-> DefaultReg,
           shp |-> [k \in ShapeKeys |-> [x \in Node |-> NoShape]], ecust |-> [e \in Node \X Node |-> None],
           U |-> <<>>, R |-> <<>>]

\* the "tracks state" of C01/C02: nodes, edges, registered features, segmentation
TS(s) == [time |-> s.time, E |-> s.E, tid |-> s.tid, lid |-> s.lid, cust |-> IF "cust" \in s.reg THEN s.cust ELSE <<>>,
          pos |-> s.pos, area |-> s.area, iou |-> s.iou, seg |-> s.seg, shp |-> s.shp, ecust |-> s.ecust]

\* timeline after a new edit made at position cur: undone steps appended in reverse
Extend(t, c, new) == t \o [i \in 1..(Len(t) - c) |-> t[Len(t) - i]] \o <<new>>
\* state and timeline after the (accepted) calls of the prefix
RECURSIVE AfterPrefix(_, _, _)
AfterPrefix(s, t, p) == IF p = <<>> THEN <<s, t>>
                        ELSE LET r == StepOrd(s, Head(p), 1)
                             IN AfterPrefix(r.s, IF r.ok THEN Extend(t, Len(t), TS(r.s)) ELSE t, Tail(p))
Init == LET a == AfterPrefix(EmptyS, <<TS(EmptyS)>>, Prefix)
        IN S = a[1] /\ tl = a[2] /\ cur = Len(a[2]) /\ n = 0

Edit(c) == \E r \in StepSet(S, c) :
    /\ S' = r.s
    /\ IF r.ok THEN tl' = Extend(tl, cur, TS(r.s)) /\ cur' = Len(tl')
       ELSE UNCHANGED <<tl, cur>>
DoUndo == LET r == Undo(S) IN
    /\ S' = r.s
    /\ tl' = tl
    /\ cur' = IF cur > 1 THEN cur - 1 ELSE cur
DoRedo == LET r == Redo(S) IN
    /\ S' = r.s
    /\ tl' = tl
    /\ cur' = IF cur < Len(tl) THEN cur + 1 ELSE cur
Next == /\ n' = n + 1
        /\ \/ \E c \in HistCalls : Edit(c)
           \/ DoUndo
           \/ DoRedo
Spec == Init /\ [][Next]_<<S, tl, cur, n>>

Bound == n <= Depth /\ S.maxT <= MaxId /\ S.maxL <= MaxId

\* ---- what TLC checks ------------------------------------------------------
AtTimeline == TS(S) = tl[cur]
\* the stacks agree with the ghost position
RetUndo == Undo(S).ret <=> (cur > 1)
RetRedo == Redo(S).ret <=> (cur < Len(tl))
NoopAtEnds == /\ (cur = 1 => TS(Undo(S).s) = TS(S) /\ Undo(S).emit = <<>>)
              /\ (cur = Len(tl) => TS(Redo(S).s) = TS(S) /\ Redo(S).emit = <<>>)
StateInv == Valid(Obs(S))
\* never forgetting: the timeline only grows
Grows == [][Len(tl') >= Len(tl) /\ SubSeq(tl', 1, Len(tl)) = tl]_<<S, tl, cur, n>>
=============================================================================
