----------------------------- MODULE TraceCandSeg -----------------------------
(***************************************************************************)
(* C18 on REAL outputs of compute_graph_from_seg(seg, D, iou=True, scale). *)
(* Frames are 1 x PX label rows; labels are unique across frames (the       *)
(* documented precondition).  Everything the graph must contain is           *)
(* recomputed here from the label array: one node per label with its time,   *)
(* area = count * sx, centroid x = sx * mean(x); an edge iff the second      *)
(* detection is in the next frame and the centroids are within D; IoU.       *)
(* record = [seg, D, sx, nodes <<id,time,area,ynum,yden,xnum,xden>>,         *)
(*           edges <<u,v,inum,iden>>, exc]                                   *)
(***************************************************************************)
EXTENDS Integers, Sequences, FiniteSets, TLC, Json, IOUtils, TLCExt
CONSTANTS T, PX
Recs == ndJsonDeserialize(IOEnv.TRACE_FILE)
VARIABLE i
TInit == TLCSet(1, 0) /\ TLCSet(2, 0) /\ i \in 1..Len(Recs)
TNext == UNCHANGED i
TSpec == TInit /\ [][TNext]_i
Rng(s) == {s[j] : j \in DOMAIN s}
Bump(j) == TLCSet(j, TLCGet(j) + 1)

Labels(seg) == UNION {{seg[t][p] : p \in 1..PX} : t \in 1..T} \ {0}
FrameOf(seg, l) == CHOOSE t \in 1..T : \E p \in 1..PX : seg[t][p] = l
Mask(seg, l) == {p \in 1..PX : seg[FrameOf(seg, l)][p] = l}
RECURSIVE Sum(_)
Sum(S) == IF S = {} THEN 0 ELSE LET x == CHOOSE y \in S : TRUE IN x + Sum(S \ {x})
\* centroid x as <<num, den>> with 0-based pixel coordinates, scaled
Cx(seg, l, sx) == << (Sum(Mask(seg, l)) - Cardinality(Mask(seg, l))) * sx, Cardinality(Mask(seg, l)) >>
RatEq(a, b) == a[1] * b[2] = b[1] * a[2]
\* |ca - cb| <= D  (the y coordinate is 0 for every detection)
Within(ca, cb, D) == (ca[1] * cb[2] - cb[1] * ca[2]) ^ 2 <= D * D * (ca[2] * cb[2]) ^ 2
IoU(seg, a, b) == << Cardinality(Mask(seg, a) \cap Mask(seg, b)), Cardinality(Mask(seg, a) \cup Mask(seg, b)) >>

NodesOK(r) ==
    /\ {n[1] : n \in Rng(r.nodes)} = Labels(r.seg)
    /\ Len(r.nodes) = Cardinality(Labels(r.seg))
    /\ \A n \in Rng(r.nodes) :
         /\ n[2] = FrameOf(r.seg, n[1]) - 1
         /\ n[3] = Cardinality(Mask(r.seg, n[1])) * r.sx
         /\ n[4] = 0
         /\ RatEq(<<n[6], n[7]>>, Cx(r.seg, n[1], r.sx))
RefEdges(r) == {e \in Labels(r.seg) \X Labels(r.seg) :
                  /\ FrameOf(r.seg, e[2]) = FrameOf(r.seg, e[1]) + 1
                  /\ Within(Cx(r.seg, e[1], r.sx), Cx(r.seg, e[2], r.sx), r.D)}
EdgesOK(r) ==
    /\ {<<e[1], e[2]>> : e \in Rng(r.edges)} = RefEdges(r)
    /\ \A e \in Rng(r.edges) : RatEq(<<e[3], e[4]>>, IoU(r.seg, e[1], e[2]))
Report ==
    LET r == Recs[i] IN
    /\ Bump(1)
    /\ IF r.exc # "" THEN PrintT(<<"FAIL", "C18", i>>)
       ELSE /\ (r.edges # <<>> => Bump(2))
            /\ ((NodesOK(r) /\ EdgesOK(r)) \/ PrintT(<<"FAIL", "C18", i>>))
Post == PrintT(<<"COUNTS", <<TLCGet(1), TLCGet(2)>>>>)
=============================================================================
