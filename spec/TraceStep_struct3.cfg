SPECIFICATION Spec
CONSTANTS
  N = 3
  T = 3
  Dims <- D_none
  Scale <- S_none
  Fixes = {}
  Check = {"C01","C03","C04","C05","C06","C11","C20","REF"}
INVARIANT Inv
POSTCONDITION Post
CHECK_DEADLOCK FALSE
