------------------------------ MODULE TraceCtl ------------------------------
(***************************************************************************)
(* Sessions RECORDED FROM THE REAL CODE in which the calls go through the   *)
(* TracksController (Ctl.tla).  A batch call is recorded with the projected *)
(* state at every refresh it emitted (subs) and the state after it (post).  *)
(* The timeline of C02 takes one step per refresh: "every top-level user    *)
(* action is exactly one step", also when a batch makes several of them.    *)
(* In lockstep the model runs the same batch (gate, then the user actions)  *)
(* and must produce the same sequence of states (refinement, DRIFT only).   *)
(***************************************************************************)
EXTENDS Ctl

CONSTANTS Check

Recs == ndJsonDeserialize(IOEnv.TRACE_FILE)

VARIABLE i
Regs == {1, 2, 3, 4, 5}
ZeroRegs == \A k \in Regs : TLCSet(k, 0)
Init == ZeroRegs /\ i \in 1..Len(Recs)
Next == UNCHANGED i
Spec == Init /\ [][Next]_i

Extend(t, c, new) == t \o [k \in 1..(Len(t) - c) |-> t[Len(t) - k]] \o <<new>>
RECURSIVE ExtendAll(_, _, _, _)
ExtendAll(t, c, subs, k) == IF k > Len(subs) THEN <<t, c>>
                            ELSE LET t2 == Extend(t, c, DecO(subs[k])) IN ExtendAll(t2, Len(t2), subs, k + 1)

\* 0, or the first step that does not agree with the timeline
RECURSIVE Walk(_, _, _, _)
Walk(steps, k, tl, cur) ==
    IF k > Len(steps) THEN 0
    ELSE
      LET st == steps[k]
          o  == DecO(st.post)
      IN IF st.c[1] = KUndo THEN
             IF cur > 1
             THEN IF st.ret /\ st.ok /\ ObsEq(tl[cur - 1], o) /\ Len(st.emit) = 1
                  THEN Walk(steps, k + 1, tl, cur - 1) ELSE k
             ELSE IF ~st.ret /\ st.ok /\ ObsEq(tl[cur], o) /\ st.emit = <<>>
                  THEN Walk(steps, k + 1, tl, cur) ELSE k
         ELSE IF st.c[1] = KRedo THEN
             IF cur < Len(tl)
             THEN IF st.ret /\ st.ok /\ ObsEq(tl[cur + 1], o) /\ Len(st.emit) = 1
                  THEN Walk(steps, k + 1, tl, cur + 1) ELSE k
             ELSE IF ~st.ret /\ st.ok /\ ObsEq(tl[cur], o) /\ st.emit = <<>>
                  THEN Walk(steps, k + 1, tl, cur) ELSE k
         ELSE IF IsCtl(st.c) THEN
             \* one timeline step per refresh; whatever ends the batch (end of list, warning, exception) adds nothing
             \* (update_node_attrs is ONE user action - one group of attribute updates whatever the number of nodes:
             \*  "exactly one step however many primitive edits it contains")
             LET x == ExtendAll(tl, cur, st.subs, 1)
             IN IF ObsEq(x[1][x[2]], o) /\ (st.c[1] = KCSetAttrs => Len(st.subs) <= 1)
                THEN Walk(steps, k + 1, x[1], x[2]) ELSE k
         ELSE IF st.ok
             THEN LET t2 == Extend(tl, cur, o) IN Walk(steps, k + 1, t2, Len(t2))
             ELSE IF ObsEq(tl[cur], o) THEN Walk(steps, k + 1, tl, cur) ELSE k

\* lockstep refinement
Dummy(k) == [j \in 1..k |-> <<>>]
ModelOf(O) == [time |-> O.time, E |-> O.E, tid |-> O.tid, lid |-> O.lid, t2n |-> O.t2n, l2n |-> O.l2n,
               maxT |-> O.maxT, maxL |-> O.maxL, cust |-> O.cust, pos |-> O.pos, area |-> O.area,
               iou |-> O.iou, seg |-> O.seg, act |-> O.act, reg |-> O.reg, shp |-> O.shp, ecust |-> O.ecust,
               U |-> Dummy(O.ulen), R |-> Dummy(O.rlen)]
SameRun(r, st) ==
    /\ r.raised = ~st.ok
    /\ Len(r.posts) = Len(st.subs)
    /\ \A k \in 1..Len(r.posts) : RefEq(Obs(r.posts[k].s), DecO(st.subs[k])) /\ r.posts[k].emit = <<st.emit[k]>>
    /\ Len(st.emit) = Len(st.subs)
    /\ RefEq(Obs(r.s), DecO(st.post))
RECURSIVE Lock(_, _, _)
Lock(steps, k, m) ==
    IF k > Len(steps) THEN 0
    ELSE LET st == steps[k]
             o  == DecO(st.post)
         IN IF IsCtl(st.c)
            THEN LET C == {r \in CtlRunSet(m, st.c, st.ids) : SameRun(r, st)}
                 IN IF C = {} THEN k ELSE Lock(steps, k + 1, (CHOOSE r \in C : TRUE).s)
            ELSE LET C == {r \in StepSet(m, st.c) : r.ok = st.ok /\ r.ret = st.ret /\ r.emit = st.emit
                                                     /\ RefEq(Obs(r.s), o)}
                 IN IF C = {} THEN k ELSE Lock(steps, k + 1, (CHOOSE r \in C : TRUE).s)

\* state invariants after every refresh and after every call
StateOK(name, j) ==
    LET O == DecO(j) IN
    CASE name = "C03" -> Forest(O)
      [] name = "C04" -> Forest(O) => TidOK(O)
      [] name = "C05" -> Forest(O) => LidOK(O)
      [] name = "C06" -> Forest(O) => (LookupOK(O) /\ NoDupLookups(j))
      [] name = "C07" -> Forest(O) => SegOK(O)
      [] name = "C08" -> (Forest(O) /\ SegOK(O)) => (AreaOK(O) /\ PosOK(O) /\ ShapeOK(O))
      [] name = "C09" -> (Forest(O) /\ SegOK(O)) => IoUOK(O)
      [] OTHER -> TRUE
RECURSIVE FirstBad(_, _, _)
FirstBad(steps, k, name) ==
    IF k > Len(steps) THEN 0
    ELSE IF ~StateOK(name, steps[k].post) \/ \E q \in 1..Len(steps[k].subs) : ~StateOK(name, steps[k].subs[q])
         THEN k ELSE FirstBad(steps, k + 1, name)
Bump(k) == TLCSet(k, TLCGet(k) + 1)
Add(k, v) == TLCSet(k, TLCGet(k) + v)
RECURSIVE NSub(_, _)
NSub(steps, k) == IF k > Len(steps) THEN 0 ELSE Len(steps[k].subs) + NSub(steps, k + 1)
NCtl(steps) == Cardinality({k \in 1..Len(steps) : IsCtl(steps[k].c)})
Rec == Recs[i]
Report ==
    LET init == DecO(Rec.init)
        w    == Walk(Rec.steps, 1, <<init>>, 1)
    IN /\ Bump(1) /\ Add(2, Len(Rec.steps)) /\ Add(3, NCtl(Rec.steps)) /\ Add(4, NSub(Rec.steps, 1))
       /\ (("C02" \in Check) => (w = 0 \/ PrintT(<<"FAIL", "C02", i, w>>)))
       /\ \A name \in Check \cap {"C03", "C04", "C05", "C06", "C07", "C08", "C09"} :
             LET b == FirstBad(Rec.steps, 1, name) IN (b = 0 \/ PrintT(<<"FAIL", name, i, b>>))
       /\ (("REF" \in Check) =>
             LET d == Lock(Rec.steps, 1, ModelOf(init)) IN (d = 0 \/ PrintT(<<"DRIFT", i, d>>)))
Inv == Report
Post == PrintT(<<"COUNTS", [k \in Regs |-> TLCGet(k)]>>)
=============================================================================
