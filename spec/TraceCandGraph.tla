---------------------------- MODULE TraceCandGraph ----------------------------
(* compute_graph_from_points_list on REAL outputs.
   record = [pts |-> <<<<frame, posidx>>, ...>> (node id = index - 1), sc |-> <<sy, sx>>,
             nodes |-> <<<<id, time, ynum, yden, xnum, xden>>, ...>>, edges |-> <<<<u, v>>, ...>>]  *)
EXTENDS CandGraph, Json, IOUtils, TLCExt
Recs == ndJsonDeserialize(IOEnv.TRACE_FILE)
VARIABLE i
TInit == TLCSet(1, 0) /\ TLCSet(2, 0) /\ i \in 1..Len(Recs) /\ X = {} /\ fs = <<>> /\ k = 0 /\ prev = {} /\ E = {}
TNext == UNCHANGED <<i, vars>>
TSpec == TInit /\ [][TNext]_<<i, vars>>
Rng(s) == {s[j] : j \in DOMAIN s}
Bump(j) == TLCSet(j, TLCGet(j) + 1)
Report ==
    LET r == Recs[i]
        dets == {<<p[1], p[2]>> : p \in Rng(r.pts)}
        det(id) == <<r.pts[id + 1][1], r.pts[id + 1][2]>>
        realE == {<<det(e[1]), det(e[2])>> : e \in Rng(r.edges)}
        nodesOK == /\ Len(r.nodes) = Len(r.pts)
                   /\ \A n \in Rng(r.nodes) :
                        LET d == det(n[1]) IN
                        /\ n[2] = d[1]
                        /\ n[3] = Poss[d[2]][1] * r.sc[1] * n[4]      \* y * scale, as num / den
                        /\ n[5] = Poss[d[2]][2] * r.sc[2] * n[6]
        \* with unit scale the distances are those of Poss
        gap == \E f \in 0..(T - 1) : f \notin FramesOf(dets) /\ \E g \in FramesOf(dets) : g > f
    IN /\ Bump(1) /\ (gap => Bump(2))
       /\ ((r.exc = "" /\ nodesOK /\ realE = RefEdges(dets)) \/ PrintT(<<"FAIL", "C18", i>>))
       /\ ((r.exc = "" /\ realE = Model(dets)) \/ PrintT(<<"DRIFT", i>>))
Post == PrintT(<<"COUNTS", <<TLCGet(1), TLCGet(2)>>>>)
=============================================================================
