--------------------------------- MODULE Ctl ---------------------------------
(***************************************************************************)
(* TracksController (data_model/tracks_controller.py): the deprecated      *)
(* batch API in front of the user actions.  One controller call is a GATE   *)
(* (validity checks made on the state before the batch) followed by a      *)
(* sequence of top-level user actions, each of which records itself in the  *)
(* history and emits its own refresh.  The batch stops at the first user    *)
(* action that raises; what was applied before stays applied (and stays     *)
(* undoable, one step per user action).                                     *)
(*                                                                         *)
(* Call tuples <<kind, a, b, c, d>>:                                        *)
(*   31 add_edges([(a,b),(c,d)])            32 the same with force=True      *)
(*   33 delete_edges([(a,b),(c,d)])         (c = 0: only the first edge)     *)
(*   34 delete_nodes([a, b])                (b = 0: only a)                  *)
(*   35 add_nodes(times [a, c], track ids [b, d])  (c = T: only one node);   *)
(*      the node ids are the controller's (logged, `ids`)                    *)
(*   36 swap_predecessors((a, b))   - an InvalidActionError becomes a warning*)
(*   37 update_node_attrs([a, b], {key c: [d, d]}) (b = 0: only a): ONE      *)
(*      group of UpdateNodeAttrs primitives, one history step, one refresh;  *)
(*      DEVIATION kept as the code has it: if a later element raises, the    *)
(*      earlier ones stay applied and are NOT in the history.                *)
(***************************************************************************)
EXTENDS Decode

KCAddEdges == 31  KCAddEdgesF == 32  KCDelEdges == 33  KCDelNodes == 34  KCAddNodes == 35
KCSwap == 36      KCSetAttrs == 37
IsCtl(c) == c[1] \in 31..37

Pairs(c) == IF c[4] = 0 THEN << <<c[2], c[3]>> >> ELSE << <<c[2], c[3]>>, <<c[4], c[5]>> >>
Ones(c)  == IF c[3] = 0 THEN << c[2] >> ELSE << c[2], c[3] >>

\* TracksController.is_valid(edge), both end points known
CtlEdgeValid(S, e) ==
    LET sw == S.time[e[1]] > S.time[e[2]]
        u  == IF sw THEN e[2] ELSE e[1]
        v  == IF sw THEN e[1] ELSE e[2]
    IN /\ <<u, v>> \notin S.E
       /\ S.time[u] # S.time[v]
       /\ Cardinality(Succs(S, u)) <= 1
       /\ ~\E n \in Present(S) : S.time[u] < S.time[n] /\ S.time[n] < S.time[v] /\ S.tid[n] = S.tid[v]

\* the gate, evaluated on the state BEFORE the batch, element by element:
\* "pass", "reject" (a warning, nothing is done) or "raise" (is_valid asks the time of an unknown node)
RECURSIVE AddGate(_, _, _)
AddGate(S, es, k) == IF k > Len(es) THEN "pass"
                     ELSE IF ~Has(S, es[k][1]) \/ ~Has(S, es[k][2]) THEN "raise"
                     ELSE IF ~CtlEdgeValid(S, es[k]) THEN "reject" ELSE AddGate(S, es, k + 1)
DelGate(S, es) == IF \A k \in 1..Len(es) : <<es[k][1], es[k][2]>> \in S.E THEN "pass" ELSE "reject"

\* the user actions of a batch, in the order they are made
CtlCalls(c, ids) ==
    CASE c[1] = KCAddEdges  -> [k \in 1..Len(Pairs(c)) |-> <<KAddEdge, Pairs(c)[k][1], Pairs(c)[k][2], 0, 0>>]
      [] c[1] = KCAddEdgesF -> [k \in 1..Len(Pairs(c)) |-> <<KAddEdge, Pairs(c)[k][1], Pairs(c)[k][2], 1, 0>>]
      [] c[1] = KCDelEdges  -> [k \in 1..Len(Pairs(c)) |-> <<KDelEdge, Pairs(c)[k][1], Pairs(c)[k][2], 0, 0>>]
      [] c[1] = KCDelNodes  -> [k \in 1..Len(Ones(c)) |-> <<KDelNode, Ones(c)[k], 0, 0, 0>>]
      [] c[1] = KCAddNodes  -> [k \in 1..Len(ids) |-> <<KAddNode, ids[k], c[2 * k], c[2 * k + 1], 0>>]
      [] c[1] = KCSwap      -> << <<KSwap, c[2], c[3], 0, 0>> >>
      [] OTHER -> <<>>

Gate(S, c) == CASE c[1] \in {KCAddEdges, KCAddEdgesF} -> AddGate(S, Pairs(c), 1)
                [] c[1] = KCDelEdges -> DelGate(S, Pairs(c))
                [] OTHER -> "pass"

\* run user-level calls in order; stop at the first that raises.  ords[k]: the order choice of call k (Props.Ords)
RECURSIVE RunCalls(_, _, _, _, _)
RunCalls(S, cs, ords, k, acc) ==
    IF k > Len(cs) THEN [posts |-> acc, raised |-> FALSE, s |-> S]
    ELSE LET r == StepOrd(S, cs[k], ords[k])
         IN IF r.ok THEN RunCalls(r.s, cs, ords, k + 1, Append(acc, [s |-> r.s, emit |-> r.emit]))
            ELSE [posts |-> acc, raised |-> TRUE, s |-> r.s]

\* update_node_attrs: the primitives one after the other; recorded and announced only when all went through
RECURSIVE SetAll(_, _, _, _, _)
SetAll(r, ns, key, val, k) == IF k > Len(ns) \/ ~r.ok THEN r
                              ELSE SetAll(Then(r, LAMBDA s : PUpdAttrs(s, ns[k], key, val)), ns, key, val, k + 1)
CtlSetAttrs(S, c) ==
    LET r == SetAll(Ok(S, <<>>), Ones(c), KeyName(c[4]), c[5], 1)
    IN IF r.ok THEN LET s2 == Push(r.s, r.ps) IN [posts |-> << [s |-> s2, emit |-> <<0>>] >>, raised |-> FALSE, s |-> s2]
       ELSE [posts |-> <<>>, raised |-> TRUE, s |-> r.s]

CtlRun(S, c, ids, ords) ==
    IF c[1] = KCSetAttrs THEN CtlSetAttrs(S, c)
    ELSE IF c[1] = KCSwap THEN
        LET r == StepOrd(S, <<KSwap, c[2], c[3], 0, 0>>, 1)
        IN IF r.ok THEN [posts |-> << [s |-> r.s, emit |-> r.emit] >>, raised |-> FALSE, s |-> r.s]
           ELSE [posts |-> <<>>, raised |-> r.err # "InvalidActionError", s |-> r.s]
    ELSE LET g == Gate(S, c)
         IN IF g = "pass" THEN RunCalls(S, CtlCalls(c, ids), ords, 1, <<>>)
            ELSE [posts |-> <<>>, raised |-> g = "raise", s |-> S]

CtlRunSet(S, c, ids) == {CtlRun(S, c, ids, o) : o \in [1..2 -> {1, 2}]}
=============================================================================
