---------------------------- MODULE TraceImport ----------------------------
(* tracks_from_df on REAL outputs: record = [R, idn, par, time, kind, drop, err,
   nodes <<<<id, time, y, x, custom>>, ...>>, edges <<<<u, v>>, ...>>]            *)
EXTENDS Import, Json, IOUtils, TLCExt
Recs == ndJsonDeserialize(IOEnv.TRACE_FILE)
VARIABLE i
TInit == TLCSet(1, 0) /\ TLCSet(2, 0) /\ i \in 1..Len(Recs)
         /\ t = 0 /\ kind = "" /\ drop = "" /\ stage = "" /\ res = 0 /\ links = {}
TNext == UNCHANGED <<i, vars>>
TSpec == TInit /\ [][TNext]_<<i, vars>>
Rng(s) == {s[j] : j \in DOMAIN s}
Bump(j) == TLCSet(j, TLCGet(j) + 1)
Report == LET r == Recs[i]
              tb == [R |-> r.R, idn |-> [k \in 1..r.R |-> r.idn[k]], par |-> [k \in 1..r.R |-> r.par[k]],
                     time |-> [k \in 1..r.R |-> r.time[k]]]
              rs == [err |-> r.err, nodes |-> {<<n[1], n[2], n[3], n[4], n[5]>> : n \in Rng(r.nodes)},
                     edges |-> {<<e[1], e[2]>> : e \in Rng(r.edges)}]
          IN /\ Bump(1) /\ (~WellFormed(tb, r.drop) => Bump(2))
             /\ ((ImportOK(tb, r.kind, r.drop, rs)
                  /\ ((r.tidcol = 1 /\ r.err = "ok") => {<<n[1], n[2]>> : n \in Rng(r.tids)} = ExpTids(tb, r.kind))
                  \* a consistent source lineage column is a mapped property like any other ...
                  /\ ((r.lincol = 1 /\ r.err = "ok") => {<<n[1], n[2]>> : n \in Rng(r.lids)} = ExpLids(tb, r.kind))
                  \* ... and an inconsistent one never survives into the constructed solution (C05 after construction)
                  /\ ((r.lincol # 0 /\ r.err = "ok") => LidsOK({<<n[1], n[2]>> : n \in Rng(r.lids)}, rs.edges)))
                 \/ PrintT(<<"FAIL", "C12", i>>))
Post == PrintT(<<"COUNTS", <<TLCGet(1), TLCGet(2)>>>>)
=============================================================================
