---------------------------- MODULE TraceRelabel ----------------------------
(* relabel_segmentation on REAL outputs:
   record = [seg (frames x pixels), nodes <<<<id, t, s>>, ...>>, out, gnodes, exc]  *)
EXTENDS Relabel, Json, IOUtils, TLCExt
Recs == ndJsonDeserialize(IOEnv.TRACE_FILE)
VARIABLE i
TInit == TLCSet(1, 0) /\ TLCSet(2, 0) /\ i \in 1..Len(Recs) /\ seg = 0 /\ asg = 0 /\ out = 0 /\ k = 0
TNext == UNCHANGED <<i, vars>>
TSpec == TInit /\ [][TNext]_<<i, vars>>
Rng(s) == {s[j] : j \in DOMAIN s}
Bump(j) == TLCSet(j, TLCGet(j) + 1)
Report == LET r == Recs[i]
              sg == [t \in 0..(T - 1) |-> [p \in 1..PX |-> r.seg[t + 1][p]]]
              a  == [x \in Slots |-> IF \E n \in Rng(r.nodes) : n[2] = x[1] /\ n[3] = x[2]
                                     THEN (CHOOSE n \in Rng(r.nodes) : n[2] = x[1] /\ n[3] = x[2])[1] ELSE -1]
              o  == [t \in 0..(T - 1) |-> [p \in 1..PX |-> r.out[t + 1][p]]]
              \* non-trivial: some label is reused across frames or equals another node's id, or id 0 occurs
              nt == \/ 0 \in NodeIds(a)
                    \/ \E x \in Slots : a[x] # -1 /\ a[x] # x[2] /\ a[x] \in 1..S
              \* known finding (known_findings.json): when every node's seg id equals its node id the importer
              \* returns the source array untouched, so unlisted labels are not cleared
              shortcut == /\ r.via \in {"df", "dfpos", "builder", "tiffdir"} /\ r.exc = "" /\ r.extra = 0
                          /\ \A x \in Slots : a[x] # -1 => a[x] = x[2]
                          /\ o = sg /\ Rng(r.gnodes) = NodeIds(a)
          IN /\ Bump(1) /\ (nt => Bump(2))
             /\ \/ (r.exc = "" /\ r.extra = 0 /\ RelabelOK(sg, a, o, Rng(r.gnodes)))
                \/ (shortcut /\ PrintT(<<"KNOWN", "C13-identity-shortcut", i>>))
                \/ (~shortcut /\ PrintT(<<"FAIL", "C13", i>>))
Post == PrintT(<<"COUNTS", <<TLCGet(1), TLCGet(2)>>>>)
=============================================================================
