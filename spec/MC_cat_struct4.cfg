SPECIFICATION Spec
CONSTANTS
  N = 4
  T = 3
  Dims <- D_none
  Scale <- S_none
  Fixes = {"F1","F2","F3","F4","F7","F9"}
  Depth = 6
  MaxId = 8
  Hist = FALSE
  Kinds = {1,2,3,4,5,6}
  EmitCat = TRUE
CONSTRAINT Bound
VIEW View
INVARIANT Emit
CHECK_DEADLOCK FALSE
