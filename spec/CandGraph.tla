------------------------------ MODULE CandGraph ------------------------------
(***************************************************************************)
(* C18: candidate graph construction (funtracks.candidate_graph).          *)
(* add_cand_edges is a loop over the frames THAT HAVE DETECTIONS carrying   *)
(* prev_node_ids; modelled step by step.  Detections live on a small        *)
(* integer grid; distances are compared as squared integers.                *)
(***************************************************************************)
EXTENDS Integers, Sequences, FiniteSets, TLC

CONSTANTS T,       \* frames 0..T-1
          D,       \* maximum edge distance (integer)
          Fixes

Fix(f) == f \in Fixes
\* candidate positions (y, x) inside a frame
Poss == << <<0, 0>>, <<0, 2>>, <<3, 4>> >>
NP == Len(Poss)
\* a detection = <<frame, position index>>
Dets == (0..(T - 1)) \X (1..NP)
Dist2(a, b) == (Poss[a[2]][1] - Poss[b[2]][1]) ^ 2 + (Poss[a[2]][2] - Poss[b[2]][2]) ^ 2
Near(a, b) == Dist2(a, b) <= D * D

\* ---- the property -------------------------------------------------------------
RefEdges(X) == {e \in X \X X : e[2][1] = e[1][1] + 1 /\ Near(e[1], e[2])}

\* ---- the loop of add_cand_edges -------------------------------------------------
FramesOf(X) == {d[1] : d \in X}
In(X, f) == {d \in X : d[1] = f}
RECURSIVE SortedSeq(_)
SortedSeq(S) == IF S = {} THEN <<>> ELSE LET m == CHOOSE x \in S : \A y \in S : x <= y IN <<m>> \o SortedSeq(S \ {m})

VARIABLES X, fs, k, prev, E
vars == <<X, fs, k, prev, E>>
Init == /\ X \in SUBSET Dets
        /\ X # {}
        /\ fs = SortedSeq(FramesOf(X))
        /\ k = 1
        /\ prev = In(X, fs[1])
        /\ E = {}
Next == /\ k <= Len(fs)
        /\ LET f == fs[k] IN
           IF (f + 1) \notin FramesOf(X)
           THEN UNCHANGED <<prev, E>>                     \* `continue`: prev is NOT advanced
           ELSE LET p == IF Fix("F14") THEN In(X, f) ELSE prev
                    nx == In(X, f + 1)
                IN /\ E' = E \cup {e \in p \X nx : Near(e[1], e[2])}
                   /\ prev' = nx
        /\ k' = k + 1 /\ UNCHANGED <<X, fs>>
Spec == Init /\ [][Next]_vars
Done == k = Len(fs) + 1
Inv_Edges == Done => E = RefEdges(X)

\* functional form, for comparison with real outputs
RECURSIVE Loop(_, _, _, _, _)
Loop(Y, s, j, p, EE) ==
    IF j > Len(s) THEN EE
    ELSE IF (s[j] + 1) \notin FramesOf(Y) THEN Loop(Y, s, j + 1, p, EE)
    ELSE LET q == IF Fix("F14") THEN In(Y, s[j]) ELSE p
             nx == In(Y, s[j] + 1)
         IN Loop(Y, s, j + 1, nx, EE \cup {e \in q \X nx : Near(e[1], e[2])})
Model(Y) == LET s == SortedSeq(FramesOf(Y)) IN Loop(Y, s, 1, In(Y, s[1]), {})
=============================================================================
