------------------------------ MODULE MapValid ------------------------------
\* ----------------------------------------------------------------------
\* C12 (malformed mappings): TracksBuilder.validate_name_map of the CSV
\* builder as a staged pipeline over ALL name maps of a small universe:
\*   preprocess (legacy y/x keys -> "pos", None and [] entries dropped)
\*   -> node map checks, in the order of the code
\*   -> spatial-dims check -> edge map / collision check.
\* A name map is a record of CHOICES, one per key:
\*   tm   time      : "ok" | "none" (None) | "bad" (no such column) | "absent"
\*   idm  id        : "ok" | "absent"
\*   pos  "pos"     : "absent" | "yx" (["y","x"]) | "y" (["y"]) | "empty"
\*                    ([]) | "none" | "str" ("y") | "ybad" (["y","nocol"])
\*   leg  legacy    : "absent" | "yx" (y->"y", x->"x") | "x" (x->"x") | "zyx" (z->"a", y->"y", x->"x")
\*                    | "zbad" (z->"nocol", y, x) | "ybad3" (z->"a", y->"nocol", x)
\*   cu   custom    : "absent" | "ok" | "bad" | "none" | "empty"
\*   ax   ellipse_axis_radii (a spatial_dims feature):
\*                    "absent" | "two" (["a","b"]) | "three" | "str" ("a")
\*   seg  has_segmentation
\*   em   edge map  : "nomap" (None) | "empty" ({}) | "iou" | "collide"
\*                    ({"custom": "w"})
\* Source columns: t id parent_id y x c a b d (no edge properties).
\* ----------------------------------------------------------------------
EXTENDS Integers, Sequences, FiniteSets, TLC

Maps == [tm : {"ok", "none", "bad", "absent"}, idm : {"ok", "absent"},
         pos : {"absent", "yx", "y", "empty", "none", "str", "ybad"},
         leg : {"absent", "yx", "x", "zyx", "zbad", "ybad3"}, cu : {"absent", "ok", "bad", "none", "empty"},
         ax : {"absent", "two", "three", "str"}, seg : BOOLEAN,
         em : {"nomap", "empty", "iou", "collide"}]

\* ---- preprocessing: the node map as a record of per-key states -----------------
\* value of "pos" after the legacy conversion: only when "pos" is NOT a key of the map (a None / [] entry
\* IS a key), and only with at least two coordinate columns; the legacy keys are deleted in any case
\* ("zyx": three existing columns; "zyxbad": three columns one of which the table does not have)
PosAfterLegacy(m) ==
    IF m.pos # "absent" THEN m.pos
    ELSE CASE m.leg = "yx" -> "yx" [] m.leg = "zyx" -> "zyx" [] m.leg \in {"zbad", "ybad3"} -> "zyxbad" [] OTHER -> "absent"
LegacyLeft(m) == IF m.pos # "absent" THEN m.leg ELSE "absent"      \* legacy keys still in the map
\* None and [] entries are dropped
Drop(v) == IF v \in {"none", "empty"} THEN "absent" ELSE v
Pre(m) == [tm |-> Drop(m.tm), idm |-> m.idm, pos |-> Drop(PosAfterLegacy(m)), leg |-> LegacyLeft(m),
           cu |-> Drop(m.cu), ax |-> m.ax, seg |-> m.seg, em |-> m.em]

\* ---- node checks, in code order -------------------------------------------------
\* 1. required keys (time, id, parent_id) with value None / missing
ReqMissing(p) == p.tm = "absent" \/ p.idm = "absent"
\* 2. position: a list needs two columns; no position at all needs a segmentation
PosBad(p) == p.pos = "y" \/ (p.pos = "absent" /\ ~p.seg)
\* 3. every mapped column exists
ColMissing(p) == p.tm = "bad" \/ p.pos \in {"ybad", "zyxbad"} \/ p.cu = "bad"
                 \/ (p.leg \in {"zbad", "ybad3"})          \* a left-over legacy key that names a missing column
\* 4. spatial_dims features: list length = number of position columns (known only from a LIST position)
PosLen(p) == CASE p.pos \in {"yx", "ybad"} -> 2 [] p.pos \in {"zyx", "zyxbad"} -> 3 [] OTHER -> 0
DimsBad(p) == (PosLen(p) = 2 /\ p.ax = "three") \/ (PosLen(p) = 3 /\ p.ax = "two")
\* 5. a key used for nodes and for edges
Collide(p) == p.em = "collide" /\ p.cu # "absent"

VARIABLES m, stage, res
vars == <<m, stage, res>>
Init == m \in Maps /\ stage = "preprocess" /\ res = ""
Next == /\ res = ""
        /\ LET p == Pre(m) IN
           CASE stage = "preprocess" -> stage' = "required" /\ UNCHANGED res
             [] stage = "required"   -> IF ReqMissing(p) THEN res' = "ValueError" /\ UNCHANGED stage
                                        ELSE stage' = "position" /\ UNCHANGED res
             [] stage = "position"   -> IF PosBad(p) THEN res' = "ValueError" /\ UNCHANGED stage
                                        ELSE stage' = "columns" /\ UNCHANGED res
             [] stage = "columns"    -> IF ColMissing(p) THEN res' = "ValueError" /\ UNCHANGED stage
                                        ELSE stage' = "dims" /\ UNCHANGED res
             [] stage = "dims"       -> IF DimsBad(p) THEN res' = "ValueError" /\ UNCHANGED stage
                                        ELSE stage' = "edges" /\ UNCHANGED res
             [] stage = "edges"      -> res' = (IF Collide(p) THEN "ValueError" ELSE "ok") /\ UNCHANGED stage
        /\ UNCHANGED m
Spec == Init /\ [][Next]_vars

\* functional form (for recorded outcomes)
Model(mm) == LET p == Pre(mm) IN
             IF ReqMissing(p) \/ PosBad(p) \/ ColMissing(p) \/ DimsBad(p) \/ Collide(p) THEN "ValueError" ELSE "ok"

\* ---- the property (C12): what MUST be rejected, stated on the map as given -------
\* a required key that is not mapped to a column of the table; no position although there is no segmentation;
\* a mapped column that the table does not have
MapsTo(v) == v \notin {"absent", "none", "empty"}
HasPos(mm) == (mm.pos \in {"yx", "str", "ybad"}) \/ (mm.pos = "absent" /\ mm.leg \in {"yx", "zyx", "zbad", "ybad3"})
MustReject(mm) ==
    \/ ~MapsTo(mm.tm) \/ mm.tm = "bad" \/ mm.idm = "absent"
    \/ (~HasPos(mm) /\ ~mm.seg)
    \/ mm.pos = "ybad" \/ mm.cu = "bad" \/ mm.leg \in {"zbad", "ybad3"}
\* a map without any flaw must be accepted
Clean(mm) == /\ mm.tm = "ok" /\ mm.idm = "ok" /\ mm.pos \in {"yx", "str", "absent"}
             /\ (mm.pos = "absent" => (mm.leg \in {"yx", "zyx"} \/ (mm.seg /\ mm.leg \in {"absent", "x"})))
             /\ mm.cu \in {"absent", "ok"} /\ mm.em \in {"nomap", "empty", "iou"}
             /\ mm.ax \in (IF mm.pos = "absent" /\ mm.leg = "zyx" THEN {"absent", "three", "str"} ELSE {"absent", "two", "str"})
             /\ (mm.pos # "absent" => mm.leg = "absent")
MapOK(mm, r) == (MustReject(mm) => r = "ValueError") /\ (Clean(mm) => r = "ok")

Inv_Map == res # "" => MapOK(m, res)
Inv_Model == res # "" => res = Model(m)
=============================================================================
