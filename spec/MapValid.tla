------------------------------ MODULE MapValid ------------------------------
\* ----------------------------------------------------------------------
\* C12 (malformed mappings): TracksBuilder.validate_name_map of the CSV
\* builder as a staged pipeline over ALL name maps of a small universe:
\*   preprocess (legacy y/x keys -> "pos", None and [] entries dropped)
\*   -> node map checks, in the order of the code
\*   -> spatial-dims check -> edge map / collision check.
\* A name map is a record of CHOICES, one per key:
\*   tm   time      : "ok" | "none" (None) | "bad" (no such column) | "absent"
\*   idm  id        : "ok" | "absent"
\*   pos  "pos"     : "absent" | "yx" (["y","x"]) | "y" (["y"]) | "empty"
\*                    ([]) | "none" | "str" ("y") | "ybad" (["y","nocol"])
\*   leg  legacy    : "absent" | "yx" (y->"y", x->"x") | "x" (x->"x")
\*   cu   custom    : "absent" | "ok" | "bad" | "none" | "empty"
\*   ax   ellipse_axis_radii (a spatial_dims feature):
\*                    "absent" | "two" (["a","b"]) | "three" | "str" ("a")
\*   seg  has_segmentation
\*   em   edge map  : "nomap" (None) | "empty" ({}) | "iou" | "collide"
\*                    ({"custom": "w"})
\* Source columns: t id parent_id y x c a b d (no edge properties).
\* ----------------------------------------------------------------------
EXTENDS Integers, Sequences, FiniteSets, TLC

Maps == [tm : {"ok", "none", "bad", "absent"}, idm : {"ok", "absent"},
         pos : {"absent", "yx", "y", "empty", "none", "str", "ybad"},
         leg : {"absent", "yx", "x"}, cu : {"absent", "ok", "bad", "none", "empty"},
         ax : {"absent", "two", "three", "str"}, seg : BOOLEAN,
         em : {"nomap", "empty", "iou", "collide"}]

\* ---- preprocessing: the node map as a record of per-key states -----------------
\* value of "pos" after the legacy conversion: only when "pos" is NOT a key of the map (a None / [] entry
\* IS a key), and only with at least two coordinate columns; the legacy keys are deleted in any case
PosAfterLegacy(m) ==
    IF m.pos # "absent" THEN m.pos
    ELSE IF m.leg = "yx" THEN "yx" ELSE "absent"
LegacyLeft(m) == IF m.pos # "absent" THEN m.leg ELSE "absent"      \* legacy keys still in the map
\* None and [] entries are dropped
Drop(v) == IF v \in {"none", "empty"} THEN "absent" ELSE v
Pre(m) == [tm |-> Drop(m.tm), idm |-> m.idm, pos |-> Drop(PosAfterLegacy(m)), leg |-> LegacyLeft(m),
           cu |-> Drop(m.cu), ax |-> m.ax, seg |-> m.seg, em |-> m.em]

\* ---- node checks, in code order -------------------------------------------------
\* 1. required keys (time, id, parent_id) with value None / missing
ReqMissing(p) == p.tm = "absent" \/ p.idm = "absent"
\* 2. position: a list needs two columns; no position at all needs a segmentation
PosBad(p) == p.pos = "y" \/ (p.pos = "absent" /\ ~p.seg)
\* 3. every mapped column exists
ColMissing(p) == p.tm = "bad" \/ p.pos = "ybad" \/ p.cu = "bad"
\* 4. spatial_dims features: list length = number of position columns (known only from a LIST position)
DimsBad(p) == p.pos \in {"yx", "ybad"} /\ p.ax = "three"
\* 5. a key used for nodes and for edges
Collide(p) == p.em = "collide" /\ p.cu # "absent"

VARIABLES m, stage, res
vars == <<m, stage, res>>
Init == m \in Maps /\ stage = "preprocess" /\ res = ""
Next == /\ res = ""
        /\ LET p == Pre(m) IN
           CASE stage = "preprocess" -> stage' = "required" /\ UNCHANGED res
             [] stage = "required"   -> IF ReqMissing(p) THEN res' = "ValueError" /\ UNCHANGED stage
                                        ELSE stage' = "position" /\ UNCHANGED res
             [] stage = "position"   -> IF PosBad(p) THEN res' = "ValueError" /\ UNCHANGED stage
                                        ELSE stage' = "columns" /\ UNCHANGED res
             [] stage = "columns"    -> IF ColMissing(p) THEN res' = "ValueError" /\ UNCHANGED stage
                                        ELSE stage' = "dims" /\ UNCHANGED res
             [] stage = "dims"       -> IF DimsBad(p) THEN res' = "ValueError" /\ UNCHANGED stage
                                        ELSE stage' = "edges" /\ UNCHANGED res
             [] stage = "edges"      -> res' = (IF Collide(p) THEN "ValueError" ELSE "ok") /\ UNCHANGED stage
        /\ UNCHANGED m
Spec == Init /\ [][Next]_vars

\* functional form (for recorded outcomes)
Model(mm) == LET p == Pre(mm) IN
             IF ReqMissing(p) \/ PosBad(p) \/ ColMissing(p) \/ DimsBad(p) \/ Collide(p) THEN "ValueError" ELSE "ok"

\* ---- the property (C12): what MUST be rejected, stated on the map as given -------
\* a required key that is not mapped to a column of the table; no position although there is no segmentation;
\* a mapped column that the table does not have
MapsTo(v) == v \notin {"absent", "none", "empty"}
HasPos(mm) == (mm.pos \in {"yx", "str", "ybad"}) \/ (mm.pos = "absent" /\ mm.leg = "yx")
MustReject(mm) ==
    \/ ~MapsTo(mm.tm) \/ mm.tm = "bad" \/ mm.idm = "absent"
    \/ (~HasPos(mm) /\ ~mm.seg)
    \/ mm.pos = "ybad" \/ mm.cu = "bad"
\* a map without any flaw must be accepted
Clean(mm) == /\ mm.tm = "ok" /\ mm.idm = "ok" /\ mm.pos \in {"yx", "str", "absent"} /\ (mm.pos = "absent" => (mm.leg = "yx" \/ mm.seg))
             /\ mm.cu \in {"absent", "ok"} /\ mm.ax \in {"absent", "two", "str"} /\ mm.em \in {"nomap", "empty", "iou"}
             /\ (mm.pos # "absent" => mm.leg = "absent")
MapOK(mm, r) == (MustReject(mm) => r = "ValueError") /\ (Clean(mm) => r = "ok")

Inv_Map == res # "" => MapOK(m, res)
Inv_Model == res # "" => res = Model(m)
=============================================================================
