------------------------------- MODULE Relabel -------------------------------
(***************************************************************************)
(* C13: relabel_segmentation (import): move each (time, seg id) mask to the *)
(* id of its node.  Modelled as the code's double loop: for every time       *)
(* point, for every (seg id -> node id) pair, write the node id where the    *)
(* SOURCE array carries the seg id.  A node id 0 shifts all ids by one, in   *)
(* the array and on the graph.                                               *)
(***************************************************************************)
EXTENDS Integers, Sequences, FiniteSets, TLC

CONSTANTS T, PX, L, S, MaxNode
\* frames 0..T-1, pixels 1..PX, labels 0..L in the array, seg ids 1..S referenced by nodes,
\* node ids 0..MaxNode

Slots == (0..(T - 1)) \X (1..S)
\* assignment: slot -> node id or -1 (no node); node ids pairwise distinct
Assignments == {a \in [Slots -> -1..MaxNode] : \A x, y \in Slots : (x # y /\ a[x] # -1) => a[x] # a[y]}
NodeIds(a) == {a[x] : x \in Slots} \ {-1}
Offset(a) == IF 0 \in NodeIds(a) THEN 1 ELSE 0

\* ---- the property ----------------------------------------------------------------
Expected(seg, a) == [t \in 0..(T - 1) |-> [p \in 1..PX |->
                        LET l == seg[t][p] IN
                        IF l \in 1..S /\ a[<<t, l>>] # -1 THEN a[<<t, l>>] + Offset(a) ELSE 0]]
RelabelOK(seg, a, out, gnodes) == out = Expected(seg, a) /\ gnodes = {n + Offset(a) : n \in NodeIds(a)}

\* ---- the loop -------------------------------------------------------------------------
RECURSIVE SortedSeq(_)
SortedSeq(X) == IF X = {} THEN <<>> ELSE LET m == CHOOSE x \in X : \A y \in X : x <= y IN <<m>> \o SortedSeq(X \ {m})
\* work list: the (time, seg id) pairs that have a node, times ascending
Work(a) == LET W == {x \in Slots : a[x] # -1}
               RECURSIVE Ord(_)
               Ord(Y) == IF Y = {} THEN <<>>
                         ELSE LET m == CHOOSE x \in Y : \A y \in Y : x[1] < y[1] \/ (x[1] = y[1] /\ x[2] <= y[2])
                              IN <<m>> \o Ord(Y \ {m})
           IN Ord(W)
VARIABLES seg, asg, out, k
vars == <<seg, asg, out, k>>
Init == /\ seg \in [0..(T - 1) -> [1..PX -> 0..L]]
        /\ asg \in Assignments
        /\ out = [t \in 0..(T - 1) |-> [p \in 1..PX |-> 0]]
        /\ k = 1
Next == /\ k <= Len(Work(asg))
        /\ LET w == Work(asg)[k]
               t == w[1]
           IN out' = [out EXCEPT ![t] = [p \in 1..PX |-> IF seg[t][p] = w[2] THEN asg[w] + Offset(asg) ELSE @[p]]]
        /\ k' = k + 1 /\ UNCHANGED <<seg, asg>>
Spec == Init /\ [][Next]_vars
Done == k = Len(Work(asg)) + 1
Inv_Relabel == Done => out = Expected(seg, asg)
=============================================================================
