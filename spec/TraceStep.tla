----------------------------- MODULE TraceStep -----------------------------
(***************************************************************************)
(* Checks transition records RECORDED FROM THE REAL CODE, one record =      *)
(* one independent one-step trace  pre --call--> post --undo--> --redo-->.  *)
(*  (i)  property predicates of Props.tla evaluated on the real data;       *)
(*  (ii) refinement: the model's StepSet from the REAL pre-state must       *)
(*       contain the real post-state (outcome, emissions, undo, redo).      *)
(* Nothing fails as a TLC invariant: every failing (property, record) pair  *)
(* is printed as a line  <<"FAIL", "Cxx", i>> / <<"DRIFT", i, field>>, and  *)
(* counters are printed by the POSTCONDITION, so one pass reports them all. *)
(***************************************************************************)
EXTENDS Decode

CONSTANTS Check        \* set of property names to evaluate, e.g. {"C03","C11","REF"}

Recs == ndJsonDeserialize(IOEnv.TRACE_FILE)

VARIABLE i
ZeroRegs == \A k \in {1, 11, 13, 14, 15, 16, 17, 18, 19, 20, 21, 30} : TLCSet(k, 0)
Init == ZeroRegs /\ i \in 1..Len(Recs)
Next == UNCHANGED i
Spec == Init /\ [][Next]_i

InUniverse(j) == j.extra = 0 /\ \A n \in Node : j.time[n] >= -1

Rec == Recs[i]
XR == LET pre == DecO(Rec.pre) IN
      [pre |-> pre, pf |-> PF(pre), c |-> Rec.c, ok |-> Rec.ok, err |-> Rec.err,
       emit |-> Rec.emit, ret |-> Rec.ret, post |-> DecO(Rec.post),
       u_ret |-> Rec.u_ret, u_post |-> DecO(Rec.u_post),
       r_ret |-> Rec.r_ret, r_post |-> DecO(Rec.r_post)]

(***************************************************************************)
(* C06 with the recorded query answers (q of the POST state)               *)
(***************************************************************************)
\* node ids issued after the last state of the record: pairwise distinct and not in use
NewIdsOK == /\ Cardinality(Rng(Rec.newids)) = Len(Rec.newids)
            /\ \A k \in Rng(Rec.newids) : k >= 1 /\ (k \in Node => Rec.r_post.time[k] = NoT)
P_C06R(x) ==
    /\ NewIdsOK
    /\ (x.pf.forest /\ x.pf.look /\ NoDupLookups(Rec.pre) /\ ~IsSwitch(x.c) /\ TidOn(x.pre)) =>
           /\ LookupOK(x.post) /\ QueriesOK(Rec.post, x.post)
           /\ (Accepted(x) => /\ LookupOK(x.u_post) /\ NoDupLookups(Rec.u_post)
                              /\ LookupOK(x.r_post) /\ NoDupLookups(Rec.r_post))
    \* a freshly constructed solution: lookups and query answers agree with the graph it was given
    /\ (IsCtor(x.c) /\ x.pf.forest /\ x.ok) => (LookupOK(x.post) /\ QueriesOK(Rec.post, x.post))
\* C07: the pixel query returns exactly the node's pixels
PixQueryOK(j, O) == HasSeg => \A n \in Present(O) : Rng(j.q.pix[n]) = MaskOf(O, n)
P_C07R(x) == P_C07(x) /\ ((HasSeg /\ x.pf.forest /\ x.pf.seg /\ x.ok /\ ~IsSwitch(x.c)) => PixQueryOK(Rec.post, x.post))
             /\ ((HasSeg /\ PFValid(x.pf) /\ Accepted(x)) => x.u_post.seg = x.pre.seg)

\* C11: "the track lookups ... are exactly as before the call" also counts the KEYS of the two lookup dicts
\* (an entry with an empty node list is invisible in the <<id, node>> pairs)
P_C11R(x) == P_C11(x) /\ ((IsEdit(x.c) /\ Refused(x) /\ ~IsPrim(x.c)) => Rec.pre.nkeys = Rec.post.nkeys)

(***************************************************************************)
(* Refinement: model step from the REAL pre-state                          *)
(***************************************************************************)
Dummy(k) == [j \in 1..k |-> <<>>]
ModelOf(O) == [time |-> O.time, E |-> O.E, tid |-> O.tid, lid |-> O.lid, t2n |-> O.t2n, l2n |-> O.l2n,
               maxT |-> O.maxT, maxL |-> O.maxL, cust |-> O.cust, pos |-> O.pos, area |-> O.area,
               iou |-> O.iou, seg |-> O.seg, act |-> O.act, reg |-> O.reg, shp |-> O.shp, ecust |-> O.ecust,
               U |-> Dummy(O.ulen), R |-> Dummy(O.rlen)]
SameObs(A, B) == RefEq(A, B)
\* which component differs (for the DRIFT line)
DiffField(A, B) ==
    IF A.time # B.time THEN "time" ELSE IF A.E # B.E THEN "E" ELSE IF A.tid # B.tid THEN "tid"
    ELSE IF A.lid # B.lid THEN "lid" ELSE IF A.t2n # B.t2n THEN "t2n" ELSE IF A.l2n # B.l2n THEN "l2n"
    ELSE IF A.maxT # B.maxT THEN "maxT" ELSE IF A.maxL # B.maxL THEN "maxL"
    ELSE IF A.seg # B.seg THEN "seg" ELSE IF A.cust # B.cust THEN "cust"
    ELSE IF A.area # B.area THEN "area" ELSE IF A.ulen # B.ulen \/ A.rlen # B.rlen THEN "hist"
    ELSE IF A.reg # B.reg \/ A.act # B.act THEN "features" ELSE "pos/iou"
RefOne(x, r) ==
    LET acc == r.ok /\ IsEdit(x.c)
        pt  == PrimTriple(ModelOf(x.pre), x.c)
        u   == IF IsPrim(x.c) THEN [s |-> pt[2].s, ret |-> pt[2].ok]
               ELSE IF acc THEN Undo(r.s) ELSE [s |-> r.s, ret |-> FALSE]
        rr  == IF IsPrim(x.c) THEN [s |-> pt[3].s, ret |-> pt[3].ok]
               ELSE IF acc THEN Redo(u.s) ELSE [s |-> r.s, ret |-> FALSE]
    IN /\ r.ok = x.ok /\ r.err = x.err /\ r.emit = x.emit
       /\ SameObs(Obs(r.s), x.post)
       /\ (acc => /\ u.ret = x.u_ret /\ SameObs(Obs(u.s), x.u_post)
                  /\ rr.ret = x.r_ret /\ SameObs(Obs(rr.s), x.r_post))
\* bulk recomputation of track / lineage ids assigns them in an order the model does not fix
ArbitraryIds(c) == \/ c[1] = KEnable /\ c[3] = 1 /\ ({"tid", "lid"} \cap FeatSet(c[2]) # {})
                   \/ c[1] = KRebuild /\ (Bit(c[2], 0) \/ Bit(c[2], 1))
\* primitives are modelled (and judged) under their documented preconditions only
OutsidePre(x) == IsPrim(x.c) /\ ~(PFValid(x.pf) /\ PrimPre(x.pre, x.c))
Refines(x) == ArbitraryIds(x.c) \/ OutsidePre(x) \/ \E r \in StepSet(ModelOf(x.pre), x.c) : RefOne(x, r)
DriftWhat(x) ==
    LET r == CHOOSE q \in StepSet(ModelOf(x.pre), x.c) : TRUE
    IN IF r.ok # x.ok \/ r.err # x.err THEN <<"outcome", r.err>>
       ELSE IF r.emit # x.emit THEN <<"emit", r.emit>>
       ELSE IF ~SameObs(Obs(r.s), x.post) THEN <<"post", DiffField(Obs(r.s), x.post)>>
       ELSE <<"undo/redo", "">>

(***************************************************************************)
(* Reporting                                                               *)
(***************************************************************************)
\* counters: TLCGet/TLCSet registers (single worker)
Bump(k) == TLCSet(k, TLCGet(k) + 1)
Rep(name, reg, nontrivial, holds) ==
    (name \in Check) =>
        /\ (nontrivial => Bump(reg))
        /\ (holds \/ PrintT(<<"FAIL", name, i>>))

Report ==
    LET x == XR IN
    IF ~InUniverse(Rec.pre) THEN PrintT(<<"SKIP", i>>)
    ELSE
    /\ Bump(1)
    /\ Rep("C01", 11, Accepted(x) /\ (IsPrim(x.c) => (PFValid(x.pf) /\ PrimPre(x.pre, x.c))), P_C01(x))
    /\ Rep("C03", 13, x.pf.forest /\ (Conflicting(x.pre, x.c) \/ (Accepted(x) /\ x.pre.E # x.post.E)),
                      P_C03(x) /\ ((x.pf.forest /\ Accepted(x)) => Forest(x.u_post) /\ Forest(x.r_post)))
    /\ Rep("C04", 14, x.pf.forest /\ x.pf.tid /\ Accepted(x) /\ x.pre.tid # x.post.tid,
                      P_C04(x) /\ ((PFValid(x.pf) /\ Accepted(x)) => TidOK(x.u_post) /\ TidOK(x.r_post)))
    /\ Rep("C05", 15, x.pf.forest /\ x.pf.lid /\ LidOn(x.pre) /\ Accepted(x) /\ x.pre.lid # x.post.lid,
                      P_C05(x) /\ ((PFValid(x.pf) /\ Accepted(x)) => LidOK(x.u_post) /\ LidOK(x.r_post)))
    /\ Rep("C06", 16, x.pf.look /\ Accepted(x) /\ x.pre.t2n # x.post.t2n, P_C06R(x))
    /\ Rep("C07", 17, HasSeg /\ Accepted(x) /\ x.pre.seg # x.post.seg, P_C07R(x))
    /\ Rep("C08", 18, HasSeg /\ Accepted(x) /\ x.pre.seg # x.post.seg, P_C08(x))
    /\ Rep("C09", 19, HasSeg /\ Accepted(x) /\ x.post.E # {} /\ x.pre.seg # x.post.seg, P_C09(x))
    /\ Rep("C10", 20, IsSwitch(x.c) \/ ManagedKey(x.c) \/ (Available \ x.pre.act # {} /\ Accepted(x)), P_C10(x))
    /\ Rep("C11", 21, IsEdit(x.c) /\ Refused(x), P_C11R(x))
    /\ Rep("C20", 30, IsEdit(x.c), P_C20(x))
    /\ (("REF" \in Check) =>
          (Refines(x) \/ PrintT(<<"DRIFT", i, DriftWhat(x)>>)))

Inv == Report

Post == PrintT(<<"COUNTS", [k \in {1, 11, 13, 14, 15, 16, 17, 18, 19, 20, 21, 30} |-> TLCGet(k)]>>)
=============================================================================
