-------------------------- MODULE TraceTrackLabels --------------------------
(* relabel_segmentation_with_track_id on REAL outputs:
   record = [si, nd (list of node ids), E (list of pairs), out (frames x pixels)] *)
EXTENDS TrackLabels, Json, IOUtils, TLCExt
Recs == ndJsonDeserialize(IOEnv.TRACE_FILE)
VARIABLE i
TInit == TLCSet(1, 0) /\ TLCSet(2, 0) /\ i \in 1..Len(Recs) /\ nd = {} /\ E = {} /\ si = 0
TNext == UNCHANGED <<i, nd, E, si>>
TSpec == TInit /\ [][TNext]_<<i, nd, E, si>>
Rng(s) == {s[k] : k \in DOMAIN s}
Bump(k) == TLCSet(k, TLCGet(k) + 1)
Report == LET r == Recs[i]
              nodes == Rng(r.nd)
              EE == {<<e[1], e[2]>> : e \in Rng(r.E)}
          IN /\ Bump(1) /\ (EE # {} => Bump(2))
             /\ (RelabelOK(Segs[r.si], nodes, EE, r.out) \/ PrintT(<<"FAIL", "C19", i>>))
Post == PrintT(<<"COUNTS", <<TLCGet(1), TLCGet(2)>>>>)
=============================================================================
