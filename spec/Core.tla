------------------------------- MODULE Core -------------------------------
(***************************************************************************)
(* Functional-style specification of the funtracks editing core.          *)
(*                                                                         *)
(* The whole tracks state is ONE record S; every code-level action is an   *)
(* operator Op(S, args) returning a result record                          *)
(*     [s |-> state after, ok |-> completed?, err |-> exception kind,      *)
(*      ps |-> <<primitives applied, with what they captured>>]            *)
(* so that the same operators serve (a) the model-checking configurations  *)
(* (Next == \E c : S' \in StepSet(S, c)), and (b) the trace specifications *)
(* that recompute the model step from a state RECORDED FROM THE REAL CODE. *)
(*                                                                         *)
(* The operators are implementation shaped: one per BasicAction            *)
(* (src/funtracks/actions/*.py, including the annotator reactions of       *)
(* notify_annotators), one per user action (src/funtracks/user_actions),   *)
(* and the two-stack ActionHistory.  Exceptions are raised where the code  *)
(* raises, so a partially applied prefix is visible in the model exactly   *)
(* when it is in the code.                                                 *)
(***************************************************************************)
EXTENDS Integers, Sequences, FiniteSets, TLC

CONSTANTS
    N,        \* node ids are 1..N
    T,        \* frames are 0..T-1
    Dims,     \* spatial shape of one frame, e.g. <<2,2>> or <<1,2,2>>; <<>> = no segmentation
    Scale,    \* integer spacing per spatial axis (same length as Dims); <<>> allowed when Dims = <<>>
    Fixes     \* which repairs of the pinned tree's defects the modelled code contains
              \* (subset of {"F1","F2","F3","F4","F7","F9","F10"}); {} = the pinned tree

Fix(f) == f \in Fixes

Node  == 1..N
Times == 0..(T-1)
NoT   == -1            \* "node absent"
None  == 0             \* missing id / attribute

RECURSIVE ProdSeq(_)
ProdSeq(s) == IF s = <<>> THEN 1 ELSE Head(s) * ProdSeq(Tail(s))
HasSeg == Dims # <<>>
P      == IF HasSeg THEN ProdSeq(Dims) ELSE 0       \* pixels per frame
Pix    == 1..(T * P)                                 \* global pixel index
FrameOf(q) == (q - 1) \div P
InFrame(q) == (q - 1) % P                            \* position inside the frame, 0..P-1
Voxel  == ProdSeq(Scale)
NAx    == Len(Dims)

\* coordinate of in-frame position r along axis d (row-major, last axis fastest)
RECURSIVE Stride(_)
Stride(d) == IF d = NAx THEN 1 ELSE Dims[d + 1] * Stride(d + 1)
Coord(r, d) == (r \div Stride(d)) % Dims[d]

Max2(a, b) == IF a >= b THEN a ELSE b

(***************************************************************************)
(* Set / sequence helpers                                                  *)
(***************************************************************************)
RECURSIVE SortedSeq(_)
SortedSeq(X) == IF X = {} THEN <<>>
                ELSE LET m == CHOOSE x \in X : \A y \in X : x <= y
                     IN <<m>> \o SortedSeq(X \ {m})


RevSeq(s) == [i \in 1..Len(s) |-> s[Len(s) + 1 - i]]

RatEq(a, b) == a[1] * b[2] = b[1] * a[2]             \* <<num, den>> rationals

(***************************************************************************)
(* Graph helpers on a state record                                         *)
(***************************************************************************)
Present(S)   == {n \in Node : S.time[n] # NoT}
Has(S, n)    == n \in Node /\ S.time[n] # NoT
Succs(S, n)  == {v \in Node : <<n, v>> \in S.E}
Preds(S, n)  == {u \in Node : <<u, n>> \in S.E}
OutDeg(S, n) == Cardinality(Succs(S, n))
InDeg(S, n)  == Cardinality(Preds(S, n))

\* nodes listed under an id in the tracklet / lineage lookup (sets of <<id, node>>)
T2N(S, id) == {p[2] : p \in {q \in S.t2n : q[1] = id}}
L2N(S, id) == {p[2] : p \in {q \in S.l2n : q[1] = id}}

\* has_track_id_at_time: consults the LOOKUP, not the graph
HasTidAt(S, id, t) == \E n \in T2N(S, id) : Has(S, n) /\ S.time[n] = t

\* get_track_neighbors: last lookup node before t / first after t (ties in time are
\* outside valid solutions; broken towards the larger id as a deterministic stand-in)
TrackPred(S, id, t) ==
    LET C == {n \in T2N(S, id) : Has(S, n) /\ S.time[n] < t}
    IN IF C = {} THEN None
       ELSE CHOOSE n \in C : \A m \in C : S.time[m] < S.time[n] \/ (S.time[m] = S.time[n] /\ m <= n)
TrackSucc(S, id, t) ==
    LET C == {n \in T2N(S, id) : Has(S, n) /\ S.time[n] > t}
    IN IF C = {} THEN None
       ELSE CHOOSE n \in C : \A m \in C : S.time[m] > S.time[n] \/ (S.time[m] = S.time[n] /\ m >= n)

\* descendants-or-self, bounded by N levels (a forest with forward edges has <= T)
RECURSIVE BfsLevels(_, _, _)
BfsLevels(S, cur, k) ==
    IF cur = <<>> \/ k = 0 THEN <<>>
    ELSE LET nxt == [i \in 1..Len(cur) |-> SortedSeq(Succs(S, cur[i]))]
             RECURSIVE Cat(_)
             Cat(j) == IF j > Len(nxt) THEN <<>> ELSE nxt[j] \o Cat(j + 1)
         IN cur \o BfsLevels(S, Cat(1), k - 1)
BfsOrder(S, start) == BfsLevels(S, <<start>>, N + 1)

(***************************************************************************)
(* Segmentation helpers                                                    *)
(***************************************************************************)
MaskAll(S, l)    == IF HasSeg THEN {q \in Pix : S.seg[q] = l} ELSE {}
MaskIn(S, l, t)  == {q \in MaskAll(S, l) : FrameOf(q) = t}
\* get_pixels(node): pixels with the node's label in the node's own frame
MaskOf(S, n)     == IF Has(S, n) THEN MaskIn(S, n, S.time[n]) ELSE {}
SetPix(S, px, v) == IF HasSeg THEN [S EXCEPT !.seg = [q \in Pix |-> IF q \in px THEN v ELSE @[q]]] ELSE S

RECURSIVE SumCoord(_, _)
SumCoord(M, d) == IF M = {} THEN 0
                  ELSE LET q == CHOOSE y \in M : TRUE IN Coord(InFrame(q), d) + SumCoord(M \ {q}, d)
AreaRef(M)   == Cardinality(M) * Voxel
\* centroid: per axis  <<sum(coord) * scale, count>>
PosRef(M)    == [d \in 1..NAx |-> << SumCoord(M, d) * Scale[d], Cardinality(M) >>]
IoURef(A, B) == LET a == {InFrame(q) : q \in A}
                    b == {InFrame(q) : q \in B}
                IN << Cardinality(a \cap b), Cardinality(a \cup b) >>

ShapeKeys == {"circ", "perim", "axes"}      \* shape features: circularity, perimeter, ellipse axes
\* A shape value is abstracted by THE MASK IT WAS COMPUTED FROM (NoShape = attribute None/absent):
\* the value is fresh iff that mask is the node's current mask.
NoShape == {-2}
NoShp   == [k \in ShapeKeys |-> NoShape]
NoPos  == <<>>
NoIoU  == <<-1, 1>>      \* "attribute missing / None"

(***************************************************************************)
(* Results                                                                 *)
(***************************************************************************)
Ok(s, ps)  == [s |-> s, ok |-> TRUE,  err |-> "ok", ps |-> ps]
Fail(s, e) == [s |-> s, ok |-> FALSE, err |-> e,    ps |-> <<>>]
\* sequencing: run F on the state produced by r unless r already raised
Then(r, F(_)) == IF r.ok
                 THEN LET q == F(r.s) IN [s |-> q.s, ok |-> q.ok, err |-> q.err, ps |-> r.ps \o q.ps]
                 ELSE r
When(c, r, F(_)) == IF c THEN Then(r, F) ELSE r

NoAttrs == [time |-> NoT, tid |-> None, lid |-> None, cust |-> None, pos |-> NoPos,
            area |-> -1, iou |-> NoIoU, shp |-> NoShp, ecust |-> None]
\* uniform primitive record (k = kind; unused fields are 0 / NoAttrs / {})
Prim(k, n, m, a, b, c, d, at, px, pxnone) ==
    [k |-> k, n |-> n, m |-> m, a |-> a, b |-> b, c |-> c, d |-> d, at |-> at, px |-> px, pxnone |-> pxnone]

(***************************************************************************)
(* Annotator reactions (notify_annotators)                                 *)
(***************************************************************************)
\* RegionpropsAnnotator.update for AddNode / UpdateNodeSeg on node n
RegionOn(S, n) ==
    IF ~HasSeg \/ (({"pos", "area"} \cup ShapeKeys) \cap S.act) = {} THEN S
    ELSE LET M == MaskOf(S, n)
             a == IF M = {} THEN -1 ELSE AreaRef(M)
             p == IF M = {} THEN NoPos ELSE PosRef(M)
         IN [S EXCEPT !.area = IF "area" \in S.act THEN [@ EXCEPT ![n] = a] ELSE @,
                      !.pos  = IF "pos"  \in S.act THEN [@ EXCEPT ![n] = p] ELSE @,
                      !.shp  = [k \in ShapeKeys |-> IF k \in S.act
                                                     THEN [@[k] EXCEPT ![n] = IF M = {} THEN NoShape ELSE M]
                                                     ELSE @[k]]]

\* EdgeAnnotator.update value for one edge
IoUOf(S, e) == LET A == MaskOf(S, e[1])
                   B == MaskOf(S, e[2])
               IN IF A = {} \/ B = {} THEN <<0, 1>>
                  ELSE LET r == IoURef(A, B) IN IF r[1] = 0 THEN <<0, 1>> ELSE r
IoUOn(S, edges) ==
    IF ~HasSeg \/ "iou" \notin S.act THEN S
    ELSE [S EXCEPT !.iou = [e \in DOMAIN @ |-> IF e \in edges THEN IoUOf(S, e) ELSE @[e]]]

(***************************************************************************)
(* Primitive actions (BasicAction subclasses)                              *)
(***************************************************************************)
\* AddNode(tracks, n, attrs, pixels).  pxnone: "pixels is None"
PAddNode(S, n, at, px, pxnone) ==
    IF at.time = NoT THEN Fail(S, "ValueError")
    ELSE IF at.tid = None THEN Fail(S, "ValueError")
    ELSE IF pxnone /\ at.pos = NoPos THEN Fail(S, "ValueError")
    \* pixels for tracks without an array: set_pixels raises before the node is added
    ELSE IF ~pxnone /\ ~HasSeg THEN Fail(S, "ValueError")
    ELSE
      LET S1 == IF pxnone THEN S ELSE SetPix(S, px, n)
          S2 == [S1 EXCEPT !.time[n] = at.time, !.tid[n] = at.tid, !.lid[n] = at.lid,
                           !.cust[n] = at.cust, !.pos[n] = at.pos, !.area[n] = at.area,
                           !.shp = [k \in ShapeKeys |-> [@[k] EXCEPT ![n] = at.shp[k]]]]
          S3 == RegionOn(S2, n)
          \* TrackAnnotator._handle_add_node (only while the tracklet feature is active)
          S4 == IF "tid" \notin S3.act THEN S3
                ELSE LET S5 == [S3 EXCEPT !.t2n = @ \cup {<<at.tid, n>>}, !.maxT = Max2(@, at.tid)]
                     IN IF "lid" \in S3.act /\ at.lid # None
                        THEN [S5 EXCEPT !.l2n = @ \cup {<<at.lid, n>>}, !.maxL = Max2(@, at.lid)]
                        ELSE S5
      IN Ok(S4, << Prim("AddNode", n, 0, 0, 0, 0, 0, at, px, pxnone) >>)

\* DeleteNode(tracks, n, pixels): captures REGISTERED node features with non-None values
PDelNode(S, n, pxgiven, pxnone) ==
    IF ~Has(S, n) THEN Fail(S, "KeyError")
    ELSE
      LET at == [time |-> S.time[n],
                 tid  |-> IF "tid"  \in S.reg THEN S.tid[n]  ELSE None,
                 lid  |-> IF "lid"  \in S.reg THEN S.lid[n]  ELSE None,
                 cust |-> IF "cust" \in S.reg THEN S.cust[n] ELSE None,
                 pos  |-> IF "pos"  \in S.reg THEN S.pos[n]  ELSE NoPos,
                 area |-> IF "area" \in S.reg THEN S.area[n] ELSE -1,
                 iou  |-> NoIoU,
                 shp  |-> [k \in ShapeKeys |-> IF k \in S.reg THEN S.shp[k][n] ELSE NoShape]]
          px == IF pxnone THEN MaskOf(S, n) ELSE pxgiven      \* get_pixels(node) if not given
          S1 == IF HasSeg THEN SetPix(S, px, 0) ELSE S
          \* graph.remove_node also drops incident edges (the action ASSUMES there are none)
          S2 == [S1 EXCEPT !.time[n] = NoT, !.tid[n] = None, !.lid[n] = None, !.cust[n] = None,
                           !.pos[n] = NoPos, !.area[n] = -1,
                           !.shp = [k \in ShapeKeys |-> [@[k] EXCEPT ![n] = NoShape]],
                           !.E = {e \in @ : e[1] # n /\ e[2] # n}]
          S3 == [S2 EXCEPT !.iou = [e \in DOMAIN @ |-> IF e \in S2.E THEN @[e] ELSE NoIoU],
                           !.ecust = [e \in DOMAIN @ |-> IF e \in S2.E THEN @[e] ELSE None]]
          S4 == IF "tid" \notin S3.act THEN S3
                ELSE LET S5 == IF at.tid # None THEN [S3 EXCEPT !.t2n = @ \ {<<at.tid, n>>}] ELSE S3
                     IN IF "lid" \in S3.act /\ at.lid # None
                        THEN [S5 EXCEPT !.l2n = @ \ {<<at.lid, n>>}] ELSE S5
      IN Ok(S4, << Prim("DelNode", n, 0, 0, 0, 0, 0, at, px, ~HasSeg) >>)

\* AddEdge(tracks, (u,v), attrs)
PAddEdge(S, u, v, at) ==
    IF ~Has(S, u) \/ ~Has(S, v) THEN Fail(S, "ValueError")
    ELSE LET S1 == [S EXCEPT !.E = @ \cup {<<u, v>>}, !.iou[<<u, v>>] = at.iou, !.ecust[<<u, v>>] = at.ecust]
             S2 == IoUOn(S1, {<<u, v>>})
         IN Ok(S2, << Prim("AddEdge", u, v, 0, 0, 0, 0, at, {}, TRUE) >>)

\* DeleteEdge(tracks, (u,v)): captures registered edge features
PDelEdge(S, u, v) ==
    IF <<u, v>> \notin S.E THEN Fail(S, "ValueError")
    ELSE LET at == [NoAttrs EXCEPT !.iou = IF "iou" \in S.reg THEN S.iou[<<u, v>>] ELSE NoIoU,
                                   !.ecust = IF "ecust" \in S.reg THEN S.ecust[<<u, v>>] ELSE None]
             S1 == [S EXCEPT !.E = @ \ {<<u, v>>}, !.iou[<<u, v>>] = NoIoU, !.ecust[<<u, v>>] = None]
         IN Ok(S1, << Prim("DelEdge", u, v, 0, 0, 0, 0, at, {}, TRUE) >>)

\* UpdateTrackIDs(tracks, start, newT, newL) + TrackAnnotator._handle_update_track_ids
PUpdTids(S, start, newT, newL) ==
    IF ~Has(S, start) THEN Fail(S, "KeyError")
    ELSE
      LET oldT == S.tid[start]
          oldL == S.lid[start]
          p    == Prim("UpdTids", start, 0, oldT, newT, oldL, newL, NoAttrs, {}, TRUE)
      IN IF "tid" \notin S.act THEN Ok(S, <<p>>)
         ELSE
           LET ord  == BfsOrder(S, start)
               updL == newL # None /\ "lid" \in S.act
               D    == {ord[i] : i \in 1..Len(ord)}
               \* single still_in_tracklet flag: longest prefix of the BFS order with tid = oldT
               K    == CHOOSE k \in 0..Len(ord) :
                          /\ \A i \in 1..k : S.tid[ord[i]] = oldT
                          /\ (k < Len(ord) => S.tid[ord[k + 1]] # oldT)
               TN   == {ord[i] : i \in 1..K}
               S1 == [S EXCEPT
                        !.tid  = [x \in Node |-> IF x \in TN THEN newT ELSE @[x]],
                        !.t2n  = (@ \ {<<oldT, x>> : x \in TN}) \cup {<<newT, x>> : x \in TN},
                        !.maxT = Max2(@, newT)]
               S2 == IF ~updL THEN S1
                     ELSE [S1 EXCEPT
                        !.lid  = [x \in Node |-> IF x \in D THEN newL ELSE @[x]],
                        !.l2n  = (IF oldL # None THEN @ \ {<<oldL, x>> : x \in D} ELSE @)
                                 \cup {<<newL, x>> : x \in D},
                        !.maxL = Max2(@, newL)]
           IN Ok(S2, <<p>>)

\* UpdateNodeSeg(tracks, n, pixels, added)
PUpdSeg(S, n, px, added) ==
    LET S1 == SetPix(S, px, IF added THEN n ELSE 0)
    IN IF ~Has(S1, n) THEN Fail(S1, "KeyError")     \* annotator: get_time(node) on a missing node
       ELSE LET S2 == RegionOn(S1, n)
                S3 == IoUOn(S2, {e \in S2.E : e[1] = n \/ e[2] = n})
            IN Ok(S3, << Prim("UpdSeg", n, 0, IF added THEN 1 ELSE 0, 0, 0, 0, NoAttrs, px, FALSE) >>)

\* UpdateNodeAttrs(tracks, n, {key: val}); key in {"cust","pos",...}
Protected(S) == {"time", "tid", "lid"} \cup (IF HasSeg THEN {"pos", "area", "iou"} \cup ShapeKeys ELSE {})
PUpdAttrs(S, n, key, val) ==
    IF key \in Protected(S) THEN Fail(S, "ValueError")
    ELSE IF ~Has(S, n) THEN Fail(S, "KeyError")
    ELSE LET prev == IF key = "cust" THEN S.cust[n] ELSE 0
             S1   == IF key = "cust" THEN [S EXCEPT !.cust[n] = val] ELSE S
         IN Ok(S1, << Prim("UpdAttrs", n, 0, prev, val, 0, 0, NoAttrs, {}, TRUE) >>)

(***************************************************************************)
(* Inverses: BasicAction.inverse() applies the inverse and returns it      *)
(***************************************************************************)
InvPrim(S, p) ==
    CASE p.k = "AddNode"  -> PDelNode(S, p.n, {}, TRUE)
      [] p.k = "DelNode"  -> PAddNode(S, p.n, p.at, p.px, p.pxnone)
      [] p.k = "AddEdge"  -> PDelEdge(S, p.n, p.m)
      [] p.k = "DelEdge"  -> PAddEdge(S, p.n, p.m, p.at)
      [] p.k = "UpdTids"  -> PUpdTids(S, p.n, p.a, p.c)
      [] p.k = "UpdSeg"   -> PUpdSeg(S, p.n, p.px, p.a = 0)
      [] p.k = "UpdAttrs" -> PUpdAttrs(S, p.n, "cust", p.a)

\* ActionGroup.inverse(): inverses of the members in reverse order (nesting flattens)
RECURSIVE InvSeq(_, _, _)
InvSeq(r, g, i) == IF i = 0 \/ ~r.ok THEN r
                   ELSE InvSeq(Then(r, LAMBDA s : InvPrim(s, g[i])), g, i - 1)
InvGroup(S, g) == InvSeq(Ok(S, <<>>), g, Len(g))

(***************************************************************************)
(* User actions.  top = _top_level.  Result adds  emit: <<args>>           *)
(***************************************************************************)
Push(S, g) == IF Len(S.R) > 0 THEN [S EXCEPT !.U = @ \o S.R \o <<g>>, !.R = <<>>]
              ELSE [S EXCEPT !.U = Append(@, g)]

\* finish a user action: on success (and top level) record it and emit
Finish(r, top, arg) ==
    IF r.ok /\ top THEN [s |-> Push(r.s, r.ps), ok |-> TRUE, err |-> "ok", ps |-> r.ps, emit |-> <<arg>>]
    ELSE [s |-> r.s, ok |-> r.ok, err |-> r.err, ps |-> r.ps, emit |-> <<>>]
Sub(r) == [s |-> r.s, ok |-> r.ok, err |-> r.err, ps |-> r.ps]

\* ---- UserDeleteEdge ----------------------------------------------------
UDelEdgeBody(S, u, v) ==
    IF <<u, v>> \notin S.E THEN Fail(S, "InvalidActionError")
    ELSE
      LET r1 == PDelEdge(S, u, v)
          od == OutDeg(r1.s, u)
      IN IF od = 0 THEN
              Then(r1, LAMBDA s : PUpdTids(s, v, s.maxT + 1, s.maxL + 1))
         ELSE IF od = 1 THEN
              LET sib == CHOOSE x \in Succs(r1.s, u) : TRUE
                  r2  == Then(r1, LAMBDA s : PUpdTids(s, sib, s.tid[u], None))
              \* fix F2: the detached subtree becomes its own lineage
              IN IF Fix("F2") THEN Then(r2, LAMBDA s : PUpdTids(s, v, s.tid[v], s.maxL + 1)) ELSE r2
         ELSE [r1 EXCEPT !.ok = FALSE, !.err = "InvalidActionError"]
UDelEdge(S, u, v, top) == Finish(UDelEdgeBody(S, u, v), top, 0)

\* ---- UserAddEdge -------------------------------------------------------
UAddEdgeBody(S, u, v, force) ==
    IF ~Has(S, u) \/ ~Has(S, v) THEN Fail(S, "InvalidActionError")
    \* fix F1: edges must lead strictly forward in time
    ELSE IF Fix("F1") /\ S.time[u] >= S.time[v] THEN Fail(S, "InvalidActionError")
    ELSE IF InDeg(S, v) > 0 /\ ~force THEN Fail(S, "InvalidActionError!")
    \* fix F9: a third child is refused before anything is removed
    ELSE IF Fix("F9") /\ OutDeg(S, u) - (IF <<u, v>> \in S.E THEN 1 ELSE 0) >= 2
         THEN Fail(S, "InvalidActionError")
    ELSE
      LET r0 == IF InDeg(S, v) > 0
                THEN LET pu == CHOOSE x \in Preds(S, v) : \A y \in Preds(S, v) : x <= y
                     IN UDelEdgeBody(S, pu, v)
                ELSE Ok(S, <<>>)
          od == OutDeg(r0.s, u)
          r1 == IF ~r0.ok THEN r0
                ELSE IF od = 0 THEN
                    Then(r0, LAMBDA s : PUpdTids(s, v, s.tid[u], s.lid[u]))
                ELSE IF od = 1 THEN
                    LET c == CHOOSE x \in Succs(r0.s, u) : TRUE
                        r2 == Then(r0, LAMBDA s : PUpdTids(s, c, s.maxT + 1, None))
                    \* fix F3: the attached subtree joins the source's lineage
                    IN IF Fix("F3") THEN Then(r2, LAMBDA s : PUpdTids(s, v, s.tid[v], s.lid[u])) ELSE r2
                ELSE [r0 EXCEPT !.ok = FALSE, !.err = "InvalidActionError"]
      IN Then(r1, LAMBDA s : PAddEdge(s, u, v, NoAttrs))
UAddEdge(S, u, v, force, top) == Finish(UAddEdgeBody(S, u, v, force), top, 0)

\* ---- UserAddNode -------------------------------------------------------
\* a = [n, t (NoT = missing), tid (None = missing), pos, cust, force, px, pxnone]; ord in {1,2}
UAddNodeBody(S, a, ord) ==
    IF a.t = NoT \/ a.tid = None THEN Fail(S, "InvalidActionError")
    ELSE IF Has(S, a.n) THEN Fail(S, "InvalidActionError")
    ELSE
      LET tid  == IF HasTidAt(S, a.tid, a.t) THEN S.maxT + 1 ELSE a.tid
          pred == TrackPred(S, tid, a.t)
          succ == TrackSucc(S, tid, a.t)
          pos  == IF succ # None /\ Preds(S, succ) # {}
                  THEN CHOOSE x \in Preds(S, succ) : \A y \in Preds(S, succ) : x <= y ELSE None
          upDiv   == pred # None /\ OutDeg(S, pred) = 2
          downDiv == ~upDiv /\ succ # None /\ pos # None /\ OutDeg(S, pos) = 2
      IN IF (upDiv \/ downDiv) /\ ~a.force THEN Fail(S, "InvalidActionError!")
         \* fix F7/F8: a node without pixels needs a position - checked before the first edit
         ELSE IF Fix("F7") /\ a.pxnone /\ a.pos = NoPos THEN Fail(S, "ValueError")
         \* fix F22: pixels without a segmentation are refused before the first edit as well
         ELSE IF Fix("F22") /\ ~a.pxnone /\ ~HasSeg THEN Fail(S, "ValueError")
         ELSE
           LET r0 == IF upDiv THEN
                        LET ss == SortedSeq(Succs(S, pred))
                            s1 == IF ord = 1 THEN ss[1] ELSE ss[2]
                            s2 == IF ord = 1 THEN ss[2] ELSE ss[1]
                        IN Then(UDelEdgeBody(S, pred, s1), LAMBDA s : UDelEdgeBody(s, pred, s2))
                     ELSE IF downDiv THEN UDelEdgeBody(S, pos, succ)
                     ELSE Ok(S, <<>>)
               lidOf(s) == IF pred # None THEN s.lid[pred]
                           ELSE IF succ # None THEN s.lid[succ]
                           ELSE s.maxL + 1
               r1 == When(pred # None /\ succ # None, r0, LAMBDA s : PDelEdge(s, pred, succ))
               r2 == Then(r1, LAMBDA s :
                        PAddNode(s, a.n,
                                 [NoAttrs EXCEPT !.time = a.t, !.tid = tid, !.lid = lidOf(s),
                                                 !.cust = a.cust, !.pos = a.pos],
                                 a.px, a.pxnone))
               r3 == When(pred # None, r2, LAMBDA s : PAddEdge(s, pred, a.n, NoAttrs))
               r4 == When(succ # None, r3, LAMBDA s : PAddEdge(s, a.n, succ, NoAttrs))
           IN r4
UAddNode(S, a, ord, top) == Finish(UAddNodeBody(S, a, ord), top, a.n)

\* ---- UserDeleteNode ----------------------------------------------------
RECURSIVE UDelNodePreds(_, _, _)
UDelNodePreds(r, n, ps) ==
    IF ps = <<>> \/ ~r.ok THEN r
    ELSE LET pr   == Head(ps)
             sibs == Succs(r.s, pr)
             r1   == IF Cardinality(sibs) = 2
                     THEN LET sib == CHOOSE x \in sibs : x # n
                          IN Then(r, LAMBDA s : PUpdTids(s, sib, s.tid[pr], None))
                     ELSE r
             r2   == Then(r1, LAMBDA s : PDelEdge(s, pr, n))
         IN UDelNodePreds(r2, n, Tail(ps))
RECURSIVE UDelNodeSuccs(_, _, _, _)
\* fix F4: every successor subtree that ends up in a component of its own (it is not
\* re-joined to the track predecessor, and it is not the one part that may keep the old
\* id) starts a new lineage.  keep = number of leading successors that keep the id.
UDelNodeSuccs(r, n, ss, keep) ==
    IF ss = <<>> \/ ~r.ok THEN r
    ELSE LET c  == Head(ss)
             r1 == Then(r, LAMBDA s : PDelEdge(s, n, c))
             r2 == IF Fix("F4") /\ keep = 0
                   THEN Then(r1, LAMBDA s : PUpdTids(s, c, s.tid[c], s.maxL + 1)) ELSE r1
         IN UDelNodeSuccs(r2, n, Tail(ss), IF keep > 0 THEN keep - 1 ELSE 0)
UDelNodeBody(S, n, px, pxnone, ord) ==
    IF ~Has(S, n) THEN Fail(S, "NetworkXError")
    ELSE
      LET prs  == SortedSeq(Preds(S, n))
          scs  == IF ord = 1 THEN SortedSeq(Succs(S, n)) ELSE RevSeq(SortedSeq(Succs(S, n)))
          tid  == S.tid[n]
          p    == TrackPred(S, tid, S.time[n])
          c    == TrackSucc(S, tid, S.time[n])
          join == p # None /\ c # None
          \* all successors keep the lineage when they are re-joined; otherwise exactly one
          \* does when the node is a root (the rest of the component is gone with it)
          keep == IF join THEN Len(scs) ELSE IF prs = <<>> THEN 1 ELSE 0
          r1   == UDelNodePreds(Ok(S, <<>>), n, prs)
          r2   == UDelNodeSuccs(r1, n, scs, keep)
          \* the code looks the neighbours up after the edge deletions, but neither the
          \* lookup nor the times change in between
          r3   == When(join, r2, LAMBDA s : PAddEdge(s, p, c, NoAttrs))
      IN Then(r3, LAMBDA s : PDelNode(s, n, px, pxnone))
UDelNode(S, n, px, pxnone, ord, top) == Finish(UDelNodeBody(S, n, px, pxnone, ord), top, 0)

\* ---- UserSwapPredecessors ----------------------------------------------
USwap(S, a, b) ==
    IF ~Has(S, a) \/ ~Has(S, b) THEN Finish(Fail(S, "NetworkXError"), TRUE, 0)
    ELSE
      LET p1 == IF Preds(S, a) = {} THEN None ELSE CHOOSE x \in Preds(S, a) : \A y \in Preds(S, a) : x <= y
          p2 == IF Preds(S, b) = {} THEN None ELSE CHOOSE x \in Preds(S, b) : \A y \in Preds(S, b) : x <= y
      IN IF p1 = None /\ p2 = None THEN Finish(Fail(S, "InvalidActionError"), TRUE, 0)
         ELSE IF p1 = p2 THEN Finish(Fail(S, "InvalidActionError"), TRUE, 0)
         ELSE IF p1 # None /\ S.time[p1] >= S.time[b] THEN Finish(Fail(S, "InvalidActionError"), TRUE, 0)
         ELSE IF p2 # None /\ S.time[p2] >= S.time[a] THEN Finish(Fail(S, "InvalidActionError"), TRUE, 0)
         ELSE
           LET r1 == When(p1 # None, Ok(S, <<>>), LAMBDA s : UDelEdgeBody(s, p1, a))
               r2 == When(p2 # None, r1, LAMBDA s : UDelEdgeBody(s, p2, b))
               r3 == When(p1 # None, r2, LAMBDA s : UAddEdgeBody(s, p1, b, FALSE))
               r4 == When(p2 # None, r3, LAMBDA s : UAddEdgeBody(s, p2, a, FALSE))
           IN Finish(r4, TRUE, 0)

\* ---- UserUpdateNodeAttrs -----------------------------------------------
UUpdAttrs(S, n, key, val) == Finish(PUpdAttrs(S, n, key, val), TRUE, 0)

\* ---- UserUpdateSegmentation --------------------------------------------
\* The caller has painted `stroke` (pixels of ONE frame) with value v on S.seg already;
\* `old` is the array before the stroke.  The action is told, per previous label,
\* which pixels changed.
PaintedSeg(S, stroke, v) == SetPix(S, stroke, v)
\* sequencing of the SUB-ACTIONS of a group: a sub-action that raises is not recorded in
\* the group (its constructor never returned), whatever it had already applied
ThenSub(r, F(_)) == IF ~r.ok THEN r
                    ELSE LET q == F(r.s)
                         IN IF q.ok THEN [s |-> q.s, ok |-> TRUE, err |-> "ok", ps |-> r.ps \o q.ps]
                            ELSE [s |-> q.s, ok |-> FALSE, err |-> q.err, ps |-> r.ps]
RECURSIVE UPaintOld(_, _, _, _, _)
UPaintOld(r, labels, stroke, old, dord) ==
    IF labels = <<>> \/ ~r.ok THEN r
    ELSE LET l  == Head(labels)
             px == {q \in stroke : old[q] = l}
             t  == FrameOf(CHOOSE q \in px : TRUE)
             r1 == IF MaskIn(r.s, l, t) = {}
                   THEN ThenSub(r, LAMBDA s : Sub(UDelNodeBody(s, l, px, FALSE, dord)))
                   ELSE ThenSub(r, LAMBDA s : PUpdSeg(s, l, px, FALSE))
         IN UPaintOld(r1, Tail(labels), stroke, old, dord)
\* S already carries the painted array; old = S.seg before painting
UPaint(S, old, stroke, v, curTid, force, ord) ==
    IF ~HasSeg THEN Finish(Fail(S, "ValueError"), TRUE, 0)
    ELSE
      LET labels == SortedSeq({old[q] : q \in stroke} \ {0})
          t      == FrameOf(CHOOSE q \in stroke : TRUE)
          newNode == v # 0 /\ ~Has(S, v)
          a == [n |-> v, t |-> t, tid |-> curTid, pos |-> NoPos, cust |-> None,
                force |-> force, px |-> stroke, pxnone |-> FALSE]
          \* "Can only update one time point at a time" (only when a label is painted). Pinned tree: asserted once
          \* the old labels have been dealt with - the rollback then recomputes IoU values against an array that still
          \* holds the caller's paint of an EXISTING label (finding F25); fix F25: checked before the first edit
          twoFrames == \E q1 \in stroke : \E q2 \in stroke : FrameOf(q1) # FrameOf(q2)
          early == Fix("F25") /\ v # 0 /\ twoFrames
          r1 == IF early THEN Fail(S, "AssertionError")
                ELSE UPaintOld(Ok(S, <<>>), labels, stroke, old, IF ord <= 2 THEN 1 ELSE 2)
          r2 == IF v = 0 \/ stroke = {} \/ ~r1.ok THEN r1
                ELSE IF twoFrames THEN [s |-> r1.s, ok |-> FALSE, err |-> "AssertionError", ps |-> r1.ps]
                ELSE IF Has(r1.s, v) THEN ThenSub(r1, LAMBDA s : PUpdSeg(s, v, stroke, TRUE))
                ELSE ThenSub(r1, LAMBDA s : Sub(UAddNodeBody(s, a, IF ord \in {1, 3} THEN 1 ELSE 2)))
          \* fix F10: a refused update inverts the sub-actions it had completed
          r3 == IF ~r2.ok /\ Fix("F10")
                THEN LET rb == InvGroup(r2.s, r2.ps) IN [s |-> rb.s, ok |-> FALSE, err |-> r2.err, ps |-> <<>>]
                ELSE r2
      IN Finish(r3, TRUE, IF r3.ok /\ newNode /\ stroke # {} THEN v ELSE 0)

(***************************************************************************)
(* Feature switching: Tracks.enable_features / disable_features            *)
(***************************************************************************)
\* every key some annotator of this tracks object can manage
Available == {"tid", "lid"} \cup (IF HasSeg THEN {"pos", "area", "iou"} \cup ShapeKeys ELSE {})
RECURSIVE CompsOf(_, _)
\* components of the undirected graph (X, EE), ordered by smallest member
CompsOf(X, EE) ==
    IF X = {} THEN <<>>
    ELSE LET m == CHOOSE x \in X : \A y \in X : x <= y
             RECURSIVE G(_)
             G(Y) == LET Z == Y \cup {e[2] : e \in {f \in EE : f[1] \in Y}} \cup {e[1] : e \in {f \in EE : f[2] \in Y}}
                     IN IF Z = Y THEN Y ELSE G(Z)
             C == G({m})
         IN <<C>> \o CompsOf(X \ C, EE)
\* GraphAnnotator.compute for the given (already filtered to active) keys
BulkCompute(S, keys) ==
    LET S1 == IF ~HasSeg THEN S
              ELSE [S EXCEPT
                 !.area = IF "area" \in keys THEN [n \in Node |-> IF MaskOf(S, n) # {} THEN AreaRef(MaskOf(S, n)) ELSE @[n]] ELSE @,
                 !.pos  = IF "pos" \in keys THEN [n \in Node |-> IF MaskOf(S, n) # {} THEN PosRef(MaskOf(S, n)) ELSE @[n]] ELSE @,
                 !.shp  = [k \in ShapeKeys |-> IF k \in keys
                                                THEN [n \in Node |-> IF MaskOf(S, n) # {} THEN MaskOf(S, n) ELSE @[k][n]]
                                                ELSE @[k]],
                 !.iou  = IF "iou" \in keys THEN [e \in DOMAIN @ |-> IF e \in S.E THEN IoUOf(S, e) ELSE @[e]] ELSE @]
        \* TrackAnnotator: ids 1..k in SOME order of the components (here: by smallest member)
        tc == CompsOf(Present(S1), {e \in S1.E : OutDeg(S1, e[1]) < 2})
        S2 == IF "tid" \notin keys THEN S1
              ELSE [S1 EXCEPT !.tid = [n \in Node |-> IF Has(S1, n) THEN CHOOSE i \in 1..Len(tc) : n \in tc[i] ELSE @[n]],
                              !.t2n = {<<i, n>> : i \in 1..Len(tc), n \in Node} \cap {<<i, n>> \in (1..Len(tc)) \X Node : n \in tc[i]},
                              !.maxT = Len(tc)]
        lc == CompsOf(Present(S2), S2.E)
        S3 == IF "lid" \notin keys THEN S2
              ELSE [S2 EXCEPT !.lid = [n \in Node |-> IF Has(S2, n) THEN CHOOSE i \in 1..Len(lc) : n \in lc[i] ELSE @[n]],
                              !.l2n = {<<i, n>> \in (1..Len(lc)) \X Node : n \in lc[i]},
                              !.maxL = Len(lc)]
    IN S3
\* keys: set of model feature names; unknown: the list also names a feature nobody manages
Enable(S, keys, unknown, recompute) ==
    IF unknown \/ ~(keys \subseteq Available) THEN [s |-> S, ok |-> FALSE, err |-> "KeyError", emit |-> <<>>]
    ELSE LET S1 == [S EXCEPT !.act = @ \cup keys, !.reg = @ \cup keys]
             S2 == IF recompute THEN BulkCompute(S1, keys) ELSE S1
         IN [s |-> S2, ok |-> TRUE, err |-> "ok", emit |-> <<>>]
Disable(S, keys, unknown) ==
    IF unknown \/ ~(keys \subseteq Available) THEN [s |-> S, ok |-> FALSE, err |-> "KeyError", emit |-> <<>>]
    ELSE [s |-> [S EXCEPT !.act = @ \ keys, !.reg = @ \ keys], ok |-> TRUE, err |-> "ok", emit |-> <<>>]

(***************************************************************************)
(* Construction: Tracks.__init__, SolutionTracks.__init__ and              *)
(* SolutionTracks.from_tracks, given a graph whose node attributes are the *)
(* ones of S (a copy of a reachable graph with some keys removed)          *)
(***************************************************************************)
MaxOf(X) == IF X = {} THEN 0 ELSE CHOOSE m \in X : \A y \in X : y <= m
\* remove the attributes `ks` from EVERY node of the graph copy
Strip(S, ks) ==
    [S EXCEPT !.tid  = IF "tid"  \in ks THEN [n \in Node |-> None]  ELSE @,
              !.lid  = IF "lid"  \in ks THEN [n \in Node |-> None]  ELSE @,
              !.pos  = IF "pos"  \in ks THEN [n \in Node |-> NoPos] ELSE @,
              !.area = IF "area" \in ks THEN [n \in Node |-> -1]    ELSE @]
\* a new object: empty history, nothing active yet, the static registry;
\* TrackAnnotator.__init__ reads lookups and id sources from the attributes (_get_max_id_and_map)
StaticReg == {"time"} \cup (IF HasSeg THEN {} ELSE {"pos"})
Fresh(S) ==
    [S EXCEPT !.U = <<>>, !.R = <<>>, !.act = {}, !.reg = StaticReg,
              !.t2n = {<<S.tid[n], n>> : n \in {m \in Present(S) : S.tid[m] # None}},
              !.l2n = {<<S.lid[n], n>> : n \in {m \in Present(S) : S.lid[m] # None}},
              !.maxT = MaxOf({S.tid[n] : n \in Present(S)} \cup {0}),
              !.maxL = MaxOf({S.lid[n] : n \in Present(S)} \cup {0})]
\* _check_existing_feature samples ONE node (TRUE for an empty graph); attributes are removed
\* from every node or from none, so "on the sampled node" = "on every node"
KeyExists(S, k) ==
    Present(S) = {} \/ \A n \in Present(S) :
        CASE k = "tid" -> S.tid[n] # None [] k = "lid" -> S.lid[n] # None
          [] k = "pos" -> S.pos[n] # NoPos [] k = "area" -> S.area[n] # -1
\* _setup_core_computed_features: an existing key is activated without computing, a missing one is enabled
RECURSIVE SetupCore(_, _)
SetupCore(S, ks) ==
    IF ks = <<>> THEN S
    ELSE LET k  == Head(ks)
             S1 == IF KeyExists(S, k) THEN [S EXCEPT !.act = @ \cup {k}, !.reg = @ \cup {k}]
                   ELSE Enable(S, {k}, FALSE, TRUE).s
         IN SetupCore(S1, Tail(ks))
RegionCore == IF HasSeg THEN <<"pos", "area">> ELSE <<>>
\* SolutionTracks(graph, segmentation, scale)
CtorDirect(S) == SetupCore(Fresh(S), RegionCore \o <<"tid", "lid">>)
\* Tracks(graph, ...) followed by SolutionTracks.from_tracks: the plain Tracks sets up the region
\* features; the solution is built with its FeatureDict (activation only) and recomputes BOTH ids when
\* some node lacks one of them.  Pinned tree: ids that are complete stay unmanaged (finding F24).
CtorFromTracks(S) ==
    LET S1    == SetupCore(Fresh(S), RegionCore)
        force == \E n \in Present(S1) : S1.tid[n] = None \/ S1.lid[n] = None
    IN IF force THEN Enable(S1, {"tid", "lid"}, FALSE, TRUE).s
       ELSE IF Fix("F24") THEN Enable(S1, {"tid", "lid"}, FALSE, FALSE).s
       ELSE S1
\* SolutionTracks(graph, features = the FeatureDict of the old object): every listed feature an
\* annotator manages is activated, nothing is computed
CtorFeatures(S) == [Fresh(S) EXCEPT !.act = S.reg \cap Available, !.reg = S.reg]

(***************************************************************************)
(* History: ActionHistory.undo / redo, Tracks.undo / redo                  *)
(***************************************************************************)
Undo(S) ==
    LET ptr == Len(S.U) - Len(S.R)            \* code: _undo_pointer + 1
    IN IF ptr <= 0 THEN [s |-> S, ok |-> TRUE, err |-> "ok", ret |-> FALSE, emit |-> <<>>]
       ELSE LET r == InvGroup(S, S.U[ptr])
            IN IF r.ok THEN [s |-> [r.s EXCEPT !.R = Append(@, r.ps)], ok |-> TRUE, err |-> "ok",
                             ret |-> TRUE, emit |-> <<0>>]
               ELSE [s |-> r.s, ok |-> FALSE, err |-> r.err, ret |-> FALSE, emit |-> <<>>]
Redo(S) ==
    IF S.R = <<>> THEN [s |-> S, ok |-> TRUE, err |-> "ok", ret |-> FALSE, emit |-> <<>>]
    ELSE LET g  == S.R[Len(S.R)]
             S1 == [S EXCEPT !.R = SubSeq(@, 1, Len(@) - 1)]
             r  == InvGroup(S1, g)
         IN IF r.ok THEN [s |-> r.s, ok |-> TRUE, err |-> "ok", ret |-> TRUE, emit |-> <<0>>]
            ELSE [s |-> r.s, ok |-> FALSE, err |-> r.err, ret |-> FALSE, emit |-> <<>>]

=============================================================================
