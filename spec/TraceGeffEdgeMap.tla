------------------------- MODULE TraceGeffEdgeMap -------------------------
(* import_from_geff with node / edge name maps on REAL outcomes.
   record = [m |-> choices (GeffEdgeMap.tla), err |-> "ok" | exception name, carried |-> the mapped edge property
             has the source values on every edge, graph_ok |-> nodes / edges / time / position as in the store] *)
EXTENDS GeffEdgeMap, Json, IOUtils, TLCExt
Recs == ndJsonDeserialize(IOEnv.TRACE_FILE)
VARIABLE i
TInit == TLCSet(1, 0) /\ TLCSet(2, 0) /\ i \in 1..Len(Recs) /\ m = 0 /\ stage = "" /\ res = ""
TNext == UNCHANGED <<i, vars>>
TSpec == TInit /\ [][TNext]_<<i, vars>>
Bump(j) == TLCSet(j, TLCGet(j) + 1)
Report == LET r == Recs[i]
              mm == [tm |-> r.m.tm, cu |-> r.m.cu, em |-> r.m.em]
          IN /\ Bump(1) /\ (MustReject(mm) => Bump(2))
             /\ mm \in Maps
             /\ ((MapOK(mm, r.err, r.carried) /\ (r.err = "ok" => r.graph_ok)) \/ PrintT(<<"FAIL", "C12", i>>))
             /\ (r.err = Model(mm) \/ PrintT(<<"DRIFT", i>>))
Post == PrintT(<<"COUNTS", <<TLCGet(1), TLCGet(2)>>>>)
=============================================================================
