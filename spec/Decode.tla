------------------------------- MODULE Decode -------------------------------
(* JSON projection of a real tracks object (harness/core.py: project) -> observable record of Props.tla *)
EXTENDS Props, Json, IOUtils, TLCExt

Rng(s) == {s[k] : k \in DOMAIN s}
StrSet(s) == {s[k] : k \in DOMAIN s}

\* JSON state -> observable record of Props.tla
ShapeIdx(k) == CASE k = "circ" -> 1 [] k = "perim" -> 2 [] k = "axes" -> 3
DecO(j) ==
    [time |-> [n \in Node |-> j.time[n]],
     E    |-> {<<e[1], e[2]>> : e \in Rng(j.E)},
     tid  |-> [n \in Node |-> j.tid[n]],
     lid  |-> [n \in Node |-> j.lid[n]],
     t2n  |-> {<<p[1], p[2]>> : p \in Rng(j.t2n)},
     l2n  |-> {<<p[1], p[2]>> : p \in Rng(j.l2n)},
     maxT |-> j.maxT, maxL |-> j.maxL,
     cust |-> [n \in Node |-> j.cust[n]],
     pos  |-> [n \in Node |-> [d \in 1..Len(j.pos[n]) |-> <<j.pos[n][d][1], j.pos[n][d][2]>>]],
     area |-> [n \in Node |-> j.area[n]],
     iou  |-> [e \in Node \X Node |->
                 IF \E r \in Rng(j.iou) : r[1] = e[1] /\ r[2] = e[2]
                 THEN LET r == CHOOSE r \in Rng(j.iou) : r[1] = e[1] /\ r[2] = e[2] IN <<r[3], r[4]>>
                 ELSE NoIoU],
     ecust |-> [e \in Node \X Node |->
                 IF \E r \in Rng(j.ecust) : r[1] = e[1] /\ r[2] = e[2]
                 THEN (CHOOSE r \in Rng(j.ecust) : r[1] = e[1] /\ r[2] = e[2])[3] ELSE None],
     \* (a projection of tracks without an array, e.g. re-imported from CSV, has an empty seg)
     seg  |-> [q \in Pix |-> IF q <= Len(j.seg) THEN j.seg[q] ELSE 0],
     act  |-> Rng(j.act), reg |-> Rng(j.reg),
     \* shape features: stored digest (shpv) and, through the from-scratch digest, freshness (shp)
     shpv |-> [k \in ShapeKeys |-> [n \in Node |-> j.shpv[ShapeIdx(k)][n]]],
     shp  |-> [k \in ShapeKeys |-> [n \in Node |->
                 IF j.shpv[ShapeIdx(k)][n] = "" THEN NoShape
                 ELSE IF j.shpv[ShapeIdx(k)][n] = j.shpr[ShapeIdx(k)][n]
                      THEN {q \in Pix : q <= Len(j.seg) /\ j.seg[q] = n /\ FrameOf(q) = j.time[n]} ELSE {-1}]],
     ulen |-> j.ulen, rlen |-> j.rlen]

\* lookups are lists in the code: duplicates are visible only before the set conversion
NoDupLookups(j) == Cardinality({<<p[1], p[2]>> : p \in Rng(j.t2n)}) = Len(j.t2n)
                   /\ Cardinality({<<p[1], p[2]>> : p \in Rng(j.l2n)}) = Len(j.l2n)

\* C06: the recorded answers of the two track queries and the next ids, against graph scans
QueriesOK(j, O) ==
    /\ NoDupLookups(j)
    /\ \A id \in 1..Len(j.q.nbr) : \A k \in 1..(T + 2) :
          LET t == k - 2 IN
          /\ j.q.nbr[id][k][1] = ScanPred(O, id, t)
          /\ j.q.nbr[id][k][2] = ScanSucc(O, id, t)
          /\ (j.q.has[id][k] = 1) <=> ScanHas(O, id, t)
    /\ \A n \in Present(O) : O.tid[n] # j.q.next_tid
    /\ LidOn(O) => \A n \in Present(O) : O.lid[n] # j.q.next_lid
=============================================================================
