------------------------------- MODULE GeffMap -------------------------------
(***************************************************************************)
(* C12 (GEFF entry point): applying a node_name_map {standard key ->        *)
(* source property} to the properties read from a store.  The code loops    *)
(* over the map entries in order and fills a FRESH dictionary from the      *)
(* properties as read; modelled entry by entry so that chained or swapped   *)
(* names (the target of one entry is the source of another) are covered.    *)
(*   Names: property names a, b, c; value of source property p = its name.   *)
(***************************************************************************)
EXTENDS Integers, Sequences, FiniteSets, TLC

Names == {"a", "b", "c"}
\* a name map = a sequence of <<target, source>> pairs with distinct targets and distinct sources
Maps == {m \in UNION {[1..n -> Names \X Names] : n \in 0..3} :
            /\ \A i, j \in DOMAIN m : i # j => (m[i][1] # m[j][1] /\ m[i][2] # m[j][2])}

VARIABLES m, k, renamed
vars == <<m, k, renamed>>
Init == m \in Maps /\ k = 1 /\ renamed = [x \in {} |-> ""]
\* renamed_node_props[target] = node_props[source]  (values are read from the properties AS READ)
Next == /\ k <= Len(m)
        /\ renamed' = [x \in DOMAIN renamed \cup {m[k][1]} |-> IF x = m[k][1] /\ x \notin DOMAIN renamed THEN m[k][2] ELSE renamed[x]]
        /\ k' = k + 1 /\ UNCHANGED m
Spec == Init /\ [][Next]_vars
\* the property: every mapped key carries the values of ITS source property, nothing else is loaded
Expected(mm) == [x \in {mm[i][1] : i \in DOMAIN mm} |-> (CHOOSE i \in DOMAIN mm : mm[i][1] = x) ]
MapOK(mm, res) == /\ DOMAIN res = {mm[i][1] : i \in DOMAIN mm}
                  /\ \A i \in DOMAIN mm : res[mm[i][1]] = mm[i][2]
Inv_Map == k = Len(m) + 1 => MapOK(m, renamed)
=============================================================================
