#!/bin/sh
# Offline setup: nothing is fetched or built; syntax-check the specifications and the harness.
set -e
cd "$(dirname "$0")"
mkdir -p evidence replays
python3 -m compileall -q vf harness check >/dev/null
for m in spec/MC.tla spec/TraceStep.tla; do
  (cd spec && tla-sany "$(basename $m)" > /tmp/vf_sany.$$ 2>&1) || { cat /tmp/vf_sany.$$; rm -f /tmp/vf_sany.$$; exit 1; }
  if grep -q "\*\*\* Errors\|Fatal errors\|Could not" /tmp/vf_sany.$$; then cat /tmp/vf_sany.$$; rm -f /tmp/vf_sany.$$; exit 1; fi
done
rm -f /tmp/vf_sany.$$
/venv/bin/python -c "import funtracks, sys; sys.path.insert(0, 'harness'); import core"
python3 -m vf.prebuild quick
echo "setup ok"
