"""spec -> code: replay catalogue paths into the real SolutionTracks, fire every call
of the alphabet from each reached state (followed by undo() and redo()), and write one
transition record per (state, call) as ndjson shards.

usage: replay.py <cfg.json> <paths.json> <outdir> <nshards> [kinds]
"""
from __future__ import annotations

import json
import os
import sys
from multiprocessing import Pool

sys.path.insert(0, os.path.dirname(os.path.abspath(__file__)))
import core  # noqa: E402


def reach(cfg, path):
    drv = core.Driver(cfg)
    if cfg.warm:
        drv.warm_up()
    for c in path:
        drv.apply(c)
    if cfg.rebuild:
        drv = drv.rebuilt()
    return drv


def record(cfg, path, call):
    """Fresh replay of `path`, then `call`, undo, redo."""
    drv = reach(cfg, path)
    pre = drv.project()
    ok, err, emit, ret = drv.apply(call)
    post = drv.project(queries=not (drv.nshift and drv.cfg.has_seg))
    rec = {"path": path, "pre": pre, "c": call, "ok": ok, "err": err, "emit": emit,
           "ret": ret, "post": post}
    if ok and core.KP_ADDNODE <= call[0] <= core.KP_UPDATTRS:
        # primitive action: its inverse, then the inverse of the inverse
        inv = None
        try:
            inv = drv.last_prim.inverse()
            rec["u_ret"] = True
        except Exception as e:  # noqa: BLE001
            rec["u_ret"] = False
            rec["u_exc"] = type(e).__name__
        rec["u_post"] = drv.project()
        try:
            if inv is not None:
                inv.inverse()
            rec["r_ret"] = inv is not None
        except Exception as e:  # noqa: BLE001
            rec["r_ret"] = False
            rec["r_exc"] = type(e).__name__
        rec["r_post"] = drv.project()
    elif ok and call[0] not in (core.K_UNDO, core.K_REDO):
        try:
            u = bool(drv.tracks.undo())
        except Exception as e:  # noqa: BLE001
            u = False
            rec["u_exc"] = type(e).__name__
        rec["u_ret"] = u
        rec["u_post"] = drv.project()
        try:
            r = bool(drv.tracks.redo())
        except Exception as e:  # noqa: BLE001
            r = False
            rec["r_exc"] = type(e).__name__
        rec["r_ret"] = r
        rec["r_post"] = drv.project()
    else:
        rec["u_ret"] = False
        rec["u_post"] = post
        rec["r_ret"] = False
        rec["r_post"] = post
    # freshly issued node ids (advances a counter that is not observable state: asked last)
    try:
        rec["newids"] = [int(x) + drv.nshift for x in drv.tracks._get_new_node_ids(3)]
    except Exception as e:  # noqa: BLE001
        rec["newids"] = [-1, -1, -1]
    return rec


def work(args):
    cfgd, paths, out, kinds, shard = args
    cfg = core.Cfg.from_json(cfgd)
    n = 0
    seen = set()
    with open(out, "w") as f:
        for path in paths:
            drv = reach(cfg, path)
            key = json.dumps(drv.project(), sort_keys=True)
            if key in seen:
                continue
            seen.add(key)
            for call in core.alphabet(drv, kinds):
                rec = record(cfg, path, call)
                f.write(json.dumps(rec, separators=(",", ":")) + "\n")
                n += 1
    return shard, n, len(seen)


def main():
    cfgd = json.load(open(sys.argv[1]))
    paths = json.load(open(sys.argv[2]))
    outdir = sys.argv[3]
    nsh = int(sys.argv[4])
    kinds = set(json.loads(sys.argv[5])) if len(sys.argv) > 5 else None
    os.makedirs(outdir, exist_ok=True)
    jobs = []
    for s in range(nsh):
        jobs.append((cfgd, paths[s::nsh], os.path.join(outdir, f"rec_{s:03d}.ndjson"), kinds, s))
    with Pool(min(nsh, os.cpu_count() or 1)) as p:
        res = p.map(work, jobs)
    tot = sum(r[1] for r in res)
    print(json.dumps({"records": tot, "states": sum(r[2] for r in res), "shards": nsh}))


if __name__ == "__main__":
    main()
