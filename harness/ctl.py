"""code -> spec: sessions in which the calls go through the deprecated TracksController
(data_model/tracks_controller.py).  A batch call is recorded with the projected state at every
refresh it emitted (subs), the node ids the controller issued (ids) and the state after it.

usage: ctl.py <cfg.json> <spec.json> <outdir> <nshards>
spec.json: {"count": K, "length": L, "seed": S, "kinds": [...user-level kinds...], "partial": false}

Nothing is judged here: spec/TraceCtl.tla does every comparison.
"""
from __future__ import annotations

import json
import os
import random
import sys
from multiprocessing import Pool

sys.path.insert(0, os.path.dirname(os.path.abspath(__file__)))
import core  # noqa: E402
from funtracks.data_model.tracks_controller import TracksController  # noqa: E402

KC_ADDEDGES, KC_ADDEDGES_F, KC_DELEDGES, KC_DELNODES, KC_ADDNODES, KC_SWAP, KC_SETATTRS = range(31, 38)
UNDO = [core.K_UNDO, 0, 0, 0, 0]
REDO = [core.K_REDO, 0, 0, 0, 0]


class CtlDriver(core.Driver):
    def __init__(self, cfg):
        super().__init__(cfg)
        assert not self.shift and not self.nshift
        self.ctl = TracksController(self.tracks)
        self.subs = None
        self.tracks.refresh.connect(self._on_refresh_state)
        self.ids = []
        orig = self.tracks._get_new_node_ids

        def logged(n):
            out = orig(n)
            self.ids = [int(x) for x in out]
            return out
        self.tracks._get_new_node_ids = logged

    def _on_refresh_state(self, *args):
        if self.subs is not None:
            self.subs.append(self.project())

    def predicted_ids(self, n):
        """The ids _get_new_node_ids(n) would return now (read-only replica, used only to stay inside 1..N)."""
        tr = self.tracks
        ctr = tr.node_id_counter
        ids = [ctr + i for i in range(n)]
        ctr += n
        for idx, _id in enumerate(ids):
            while tr.graph.has_node(_id):
                _id = ctr
                ctr += 1
            ids[idx] = _id
        return ids

    def apply_any(self, c):
        """Returns the step record (without post)."""
        k = c[0]
        tr, ctl = self.tracks, self.ctl
        if k < 31 and k not in (core.K_UNDO, core.K_REDO):
            if k == core.K_PAINT:
                # the paint goes through TracksController.update_segmentations (a plain pass-through)
                orig = core.UserUpdateSegmentation
                core.UserUpdateSegmentation = \
                    lambda _tr, v, upd, tid, force=False: ctl.update_segmentations(v, upd, 0, tid, force)
                try:
                    ok, err, emit, ret = self.apply(c)
                finally:
                    core.UserUpdateSegmentation = orig
            else:
                ok, err, emit, ret = self.apply(c)
            return {"c": c, "ok": ok, "err": err, "ret": ret, "emit": emit, "subs": [], "ids": []}
        self.emits, self.subs, self.ids = [], [], []
        ret = True
        try:
            if k == core.K_UNDO:
                ret = bool(ctl.undo())
            elif k == core.K_REDO:
                ret = bool(ctl.redo())
            elif k in (KC_ADDEDGES, KC_ADDEDGES_F):
                es = [(c[1], c[2])] + ([(c[3], c[4])] if c[3] else [])
                ctl.add_edges(es, force=(k == KC_ADDEDGES_F))
            elif k == KC_DELEDGES:
                es = [(c[1], c[2])] + ([(c[3], c[4])] if c[3] else [])
                ctl.delete_edges(es)
            elif k == KC_DELNODES:
                ctl.delete_nodes([c[1]] + ([c[2]] if c[2] else []))
            elif k == KC_ADDNODES:
                n = 1 if c[3] == self.cfg.T else 2
                ids = self.predicted_ids(n)
                times = [c[1], c[3]][:n]
                tids = [c[2], c[4]][:n]
                ctl.add_nodes({tr.features.time_key: times, tr.features.tracklet_key: tids,
                               "pos": [core.user_pos(i) for i in ids]})
            elif k == KC_SWAP:
                ctl.swap_predecessors((c[1], c[2]))
            elif k == KC_SETATTRS:
                nodes = [c[1]] + ([c[2]] if c[2] else [])
                key = {1: core.CUSTOM_KEY, 2: tr.features.time_key, 3: tr.features.tracklet_key}[c[3]]
                ctl.update_node_attrs(nodes, {key: [c[4] - 1] * len(nodes)})
            else:
                raise RuntimeError(f"unknown call {c}")
            ok, err = True, "ok"
        except Exception as e:  # noqa: BLE001 - the outcome IS the observation
            if isinstance(e, RuntimeError) and "unknown call" in str(e):
                raise
            ok, err, ret = False, type(e).__name__, False
        subs, self.subs = self.subs, None
        if k in (core.K_UNDO, core.K_REDO):
            subs = []
        return {"c": c, "ok": ok, "err": err, "ret": ret, "emit": list(self.emits), "subs": subs,
                "ids": list(self.ids) if k == KC_ADDNODES else []}


def random_ctl_call(rnd, drv, partial, only=None):
    cfg, tr = drv.cfg, drv.tracks
    N, T = cfg.N, cfg.T
    present = sorted(int(n) for n in tr.graph.nodes)
    edges = sorted((int(u), int(v)) for u, v in tr.graph.edges)
    maxT = int(tr.track_annotator.max_tracklet_id)

    def node():
        return rnd.randint(1, N)

    def pnode():
        return rnd.choice(present) if present and rnd.random() < 0.85 else node()

    for _ in range(50):
        k = rnd.choice(only or [31, 31, 32, 33, 34, 35, 35, 36, 37])
        if k in (31, 32):
            def pair():
                cands = [(u, v) for u in present for v in present
                         if tr.get_time(u) < tr.get_time(v) and not tr.graph.has_edge(u, v)]
                if cands and rnd.random() < 0.75:
                    return rnd.choice(cands)
                return pnode(), pnode()
            a, b = pair()
            if rnd.random() < 0.5:
                return [k, a, b, 0, 0]
            return [k, a, b, *pair()]
        if k == 33:
            if edges and rnd.random() < 0.8:
                e = rnd.choice(edges)
                if rnd.random() < 0.5:
                    return [k, e[0], e[1], 0, 0]
                f = rnd.choice(edges) if rnd.random() < 0.7 else (pnode(), pnode())
                return [k, e[0], e[1], f[0], f[1]]
            return [k, pnode(), pnode(), 0, 0]
        if k == 34:
            a = pnode()
            b = 0 if rnd.random() < 0.5 else pnode()
            return [k, a, b, 0, 0]
        if k == 35:
            if cfg.has_seg:
                continue        # with a segmentation nodes are created by painting
            n = rnd.choice([1, 2])
            if any(i > N for i in drv.predicted_ids(n)):
                continue
            t1, t2 = rnd.randrange(T), (rnd.randrange(T) if n == 2 else T)
            return [k, t1, rnd.randint(1, maxT + 2), t2, rnd.randint(1, maxT + 2) if n == 2 else 0]
        if k == 36:
            return [k, pnode(), pnode(), 0, 0]
        if k == 37:
            a = pnode()
            b = 0 if rnd.random() < 0.4 else pnode()
            key = rnd.choice([1, 1, 1, 2, 3])
            is_partial = key == 1 and a in tr.graph and b and b not in tr.graph
            if is_partial != bool(partial) and (partial or is_partial):
                continue
            return [k, a, b, key, rnd.randint(1, 3)]
    return UNDO


def run_session(cfg, spec, sid):
    rnd = random.Random(spec["seed"] * 1000003 + sid)
    drv = CtlDriver(cfg)
    sess = {"sid": sid, "init": drv.project(), "steps": []}
    # (no reconstruction calls here: the controller, its refresh hook and the id log are bound to ONE tracks object)
    kinds = set(spec["kinds"]) - {core.K_REBUILD}
    partial = spec.get("partial", False)
    for j in range(spec["length"]):
        x = rnd.random()
        if partial and j == spec["length"] - 1:
            c = random_ctl_call(rnd, drv, True)
        elif j < spec.get("warmup", 6):
            # warm-up: grow a graph first (additions, directly or through the controller)
            c = rnd.choice(core.alphabet(drv, {1, 2, 9} & kinds or kinds)) if x < 0.5 else \
                random_ctl_call(rnd, drv, False, only=(31, 32, 35))
        elif x < 0.18:
            c = UNDO
        elif x < 0.30:
            c = REDO
        elif x < 0.55:
            c = rnd.choice(core.alphabet(drv, kinds))
        else:
            c = random_ctl_call(rnd, drv, False)
        st = drv.apply_any(c)
        st["post"] = drv.project()
        sess["steps"].append(st)
    return sess


def work(args):
    cfgd, spec, out, shard, nsh = args
    cfg = core.Cfg.from_json(cfgd)
    n = steps = 0
    with open(out, "w") as f:
        for k in range(shard, spec["count"], nsh):
            s = run_session(cfg, spec, k)
            f.write(json.dumps(s, separators=(",", ":")) + "\n")
            n += 1; steps += len(s["steps"])
    return n, steps


def main():
    cfgd = json.load(open(sys.argv[1]))
    spec = json.load(open(sys.argv[2]))
    outdir, nsh = sys.argv[3], int(sys.argv[4])
    os.makedirs(outdir, exist_ok=True)
    jobs = [(cfgd, spec, os.path.join(outdir, f"ctl_{s:03d}.ndjson"), s, nsh) for s in range(nsh)]
    with Pool(min(nsh, os.cpu_count() or 1)) as p:
        res = p.map(work, jobs)
    print(json.dumps({"sessions": sum(r[0] for r in res), "steps": sum(r[1] for r in res), "shards": nsh}))


if __name__ == "__main__":
    main()
