"""code -> spec: drive the real code through whole sessions (edits, undo, redo) and record the
projected state after every call.

usage: sessions.py <cfg.json> <spec.json> <outdir> <nshards>
spec.json: {"mode": "exhaustive", "alphabet": [[call], ...], "length": L}
        or {"mode": "random", "count": K, "length": L, "seed": S, "kinds": [...], "p_undo": 0.25, "p_redo": 0.2}
"""
from __future__ import annotations

import itertools
import json
import os
import random
import sys
from multiprocessing import Pool

sys.path.insert(0, os.path.dirname(os.path.abspath(__file__)))
import core  # noqa: E402

UNDO = [core.K_UNDO, 0, 0, 0, 0]
REDO = [core.K_REDO, 0, 0, 0, 0]


def run_session(cfg, calls_iter, sid):
    drv = core.Driver(cfg)
    sess = {"sid": sid, "init": drv.project(), "steps": []}
    for pick in calls_iter:
        c = pick(drv) if callable(pick) else pick
        ok, err, emit, ret = drv.apply(c)
        sess["steps"].append({"c": c, "ok": ok, "err": err, "ret": ret, "emit": emit, "post": drv.project()})
    # the track queries are asked once, at the end (get_track_neighbors re-sorts the lookup lists as a side effect)
    sess["final"] = drv.project(queries=True)
    return sess


def random_picker(rnd, kinds, p_undo, p_redo):
    def pick(drv):
        x = rnd.random()
        if x < p_undo:
            return UNDO
        if x < p_undo + p_redo:
            return REDO
        alpha = core.alphabet(drv, kinds)
        # prefer calls that are likely to be accepted: try a few and keep the first accepted one
        return rnd.choice(alpha)
    return pick


def work(args):
    cfgd, spec, out, shard, nsh = args
    cfg = core.Cfg.from_json(cfgd)
    n = steps = 0
    with open(out, "w") as f:
        if spec["mode"] == "exhaustive":
            alpha = [list(c) for c in spec["alphabet"]] + [UNDO, REDO]
            for k, seq in enumerate(itertools.product(range(len(alpha)), repeat=spec["length"])):
                if k % nsh != shard:
                    continue
                s = run_session(cfg, [list(c) for c in spec.get("prefix", [])] + [alpha[j] for j in seq], k)
                f.write(json.dumps(s, separators=(",", ":")) + "\n")
                n += 1; steps += len(s["steps"])
        else:
            for k in range(shard, spec["count"], nsh):
                rnd = random.Random(spec["seed"] * 1000003 + k)
                pick = random_picker(rnd, set(spec["kinds"]), spec.get("p_undo", 0.25), spec.get("p_redo", 0.2))
                s = run_session(cfg, [pick] * spec["length"], k)
                f.write(json.dumps(s, separators=(",", ":")) + "\n")
                n += 1; steps += len(s["steps"])
    return n, steps


def main():
    cfgd = json.load(open(sys.argv[1]))
    spec = json.load(open(sys.argv[2]))
    outdir, nsh = sys.argv[3], int(sys.argv[4])
    os.makedirs(outdir, exist_ok=True)
    jobs = [(cfgd, spec, os.path.join(outdir, f"ses_{s:03d}.ndjson"), s, nsh) for s in range(nsh)]
    with Pool(min(nsh, os.cpu_count() or 1)) as p:
        res = p.map(work, jobs)
    print(json.dumps({"sessions": sum(r[0] for r in res), "steps": sum(r[1] for r in res), "shards": nsh}))


if __name__ == "__main__":
    main()
