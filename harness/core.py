"""Drive the real funtracks editing core along calls of the TLA+ alphabet and project
its state.  Run with /venv/bin/python (imports funtracks from /repo's working tree).

The projection JUDGES NOTHING: it only reads public API / documented attributes and
writes integers, short strings and arrays.  Every comparison is made by TLC.
"""
from __future__ import annotations

import json
import math
import warnings
from fractions import Fraction

import networkx as nx
import numpy as np

from funtracks.data_model import SolutionTracks
from funtracks.exceptions import InvalidActionError
from funtracks.user_actions import (
    UserAddEdge,
    UserAddNode,
    UserDeleteEdge,
    UserDeleteNode,
    UserSwapPredecessors,
    UserUpdateNodeAttrs,
    UserUpdateSegmentation,
)

warnings.filterwarnings("ignore")

K_ADDNODE, K_ADDEDGE, K_DELEDGE, K_DELNODE, K_SWAP, K_SETATTR, K_UNDO, K_REDO, K_PAINT = range(1, 10)
K_ENABLE, K_DISABLE = 10, 11
K_REBUILD = 12
REBUILD_MODES_SEG = [0, 1, 2, 3, 4, 5, 6, 7, 8, 11, 12, 15, 16]      # RebuildModes of MC.tla
REBUILD_MODES_NOSEG = [0, 1, 2, 3, 4, 5, 6, 7, 16]
KP_ADDNODE, KP_DELNODE, KP_ADDEDGE, KP_DELEDGE, KP_UPDTIDS, KP_UPDSEG, KP_UPDATTRS = range(21, 28)
CUSTOM_KEY = "vx_custom"
ECUSTOM_KEY = "vx_ecustom"

# model feature name <-> real key
FEAT = {"tid": "track_id", "lid": "lineage_id", "pos": "pos", "area": "area", "iou": "iou",
        "circ": "circularity", "perim": "perimeter", "axes": "ellipse_axis_radii",
        "cust": CUSTOM_KEY, "ecust": ECUSTOM_KEY, "time": "time"}
RFEAT = {v: k for k, v in FEAT.items()}
FEAT_BITS = ["area", "iou", "circ", "lid", "pos", "tid", "perim", "axes"]  # bit i of a feature mask


CUSTOM_NAMES = {"time_attr": "t", "pos_attr": "position", "tracklet_attr": "trk", "lineage_attr": "lin"}


def real_key(tr, model_name):
    """real attribute name of a model feature name on this tracks object"""
    f = tr.features
    if model_name == "tid":
        return f.tracklet_key
    if model_name == "lid":
        return f.lineage_key
    if model_name == "time":
        return f.time_key
    if model_name == "pos" and isinstance(f.position_key, str):
        return f.position_key
    return FEAT[model_name]


class Cfg:
    """One configuration of a run: universe + how the tracks object is constructed."""

    def __init__(self, N=3, T=3, dims=(), scale=(), use_scale=True, reg_cust=False,
                 per_axis_pos=False, name="struct", enable=(), rebuild=None, embed=None, max_stroke=0, node_shift=0,
                 seg_dtype="uint16", formats=None, custom_keys=False, warm=False, seg_view=False, disable=()):
        self.N, self.T = N, T
        self.dims = tuple(dims)
        self.scale = tuple(scale) if scale else tuple(1 for _ in dims)
        self.use_scale = use_scale      # pass scale= to the constructor (else None)
        self.reg_cust = reg_cust        # register the custom attribute as a feature
        self.per_axis_pos = per_axis_pos
        self.name = name
        self.enable = list(enable)      # model feature names enabled right after construction
        # rebuild: after replaying a path, construct a NEW SolutionTracks from a copy of the graph
        # (ids shifted down by `shift`, so that id 0 occurs; optional falsy custom edge attribute)
        self.rebuild = dict(rebuild) if rebuild else None
        self.node_shift = node_shift    # >0: the driver uses real node ids = model ids - node_shift from the start
        # embed: [width, [real column of abstract column 0, 1, ...]]: the abstract frame is embedded in a
        # wider real array (last axis), e.g. to straddle the 64-voxel chunks of the GEFF exporter
        self.embed = embed
        # embed may also be a dict {"shape": real array shape, "tmap": real frame of abstract frame 0.., "amap":
        # [per spatial axis: real index of abstract index 0.. (or None = identity)]}: embedding along every axis
        self.max_stroke = max_stroke    # 0: all strokes are fired; k: only strokes of <= k pixels
        self.seg_dtype = seg_dtype      # dtype of the label array
        self.formats = formats          # round-trip formats of the export harness (None = csv, geff, internal)
        # attribute names chosen by the caller: time "t", position "position", track id "trk", lineage id "lin"
        self.custom_keys = custom_keys
        # warm: before a path is replayed, every node id is used once in ANOTHER frame (linked, queried) and deleted
        # again - whatever the object remembers per node id, track id or frame is then stale
        self.warm = warm
        self.seg_view = seg_view        # the label array is a non-contiguous VIEW of a wider array
        self.disable = list(disable)    # model feature names disabled right after construction
        self.P = int(np.prod(self.dims)) if self.dims else 0

    @property
    def has_seg(self):
        return bool(self.dims)

    def to_json(self):
        return {"N": self.N, "T": self.T, "dims": list(self.dims), "scale": list(self.scale),
                "use_scale": self.use_scale, "reg_cust": self.reg_cust,
                "per_axis_pos": self.per_axis_pos, "name": self.name, "enable": self.enable,
                "rebuild": self.rebuild, "embed": self.embed, "max_stroke": self.max_stroke, "node_shift": self.node_shift,
                "seg_dtype": self.seg_dtype, "formats": self.formats,
                "custom_keys": self.custom_keys, "warm": self.warm,
                "seg_view": self.seg_view, "disable": self.disable}

    @staticmethod
    def from_json(d):
        return Cfg(**d)


def user_pos(n):
    """Position a caller gives node n without segmentation: UserPos(n) in Props.tla."""
    return [float(n), (2 * n + 1) / 2.0]


class Driver:
    """A real SolutionTracks plus the recording of refresh emissions."""

    def __init__(self, cfg: Cfg, graph=None, seg=None, shift=0, ecust=False, nshift=0):
        self.cfg = cfg
        self.shift = shift              # real id = model id - shift
        self.nshift = nshift or cfg.node_shift   # real NODE id = model node id - nshift
        self.ecust = ecust
        g = graph if graph is not None else nx.DiGraph()
        if cfg.has_seg:
            if seg is None:
                shape = (cfg.T, *cfg.dims)
                if isinstance(cfg.embed, dict):
                    shape = tuple(cfg.embed["shape"])
                elif cfg.embed:
                    shape = (*shape[:-1], cfg.embed[0])
                seg = np.zeros(shape, dtype=np.dtype(cfg.seg_dtype))
                if cfg.seg_view:
                    # a cropped view of a wider array: legal, writable, not C-contiguous
                    wide = np.zeros((*shape[:-1], shape[-1] + 4), dtype=np.dtype(cfg.seg_dtype))
                    seg = wide[..., 2:2 + shape[-1]]
                    assert not seg.flags["C_CONTIGUOUS"] or shape[-1] == 1
            scale = [1, *cfg.scale] if cfg.use_scale else None
            self.tracks = SolutionTracks(g, segmentation=seg, scale=scale)
        else:
            kw = {}
            if cfg.per_axis_pos:
                kw["pos_attr"] = ["y", "x"]
            if cfg.custom_keys:
                kw.update(CUSTOM_NAMES)
            self.tracks = SolutionTracks(g, ndim=3, **kw)
        if cfg.reg_cust:
            self.tracks.features[CUSTOM_KEY] = {
                "feature_type": "node", "value_type": "int", "num_values": 1,
                "display_name": "custom", "required": False, "default_value": None}
        if ecust:
            self.tracks.features[ECUSTOM_KEY] = {
                "feature_type": "edge", "value_type": "int", "num_values": 1,
                "display_name": "edge custom", "required": False, "default_value": None}
        if cfg.enable:
            self.tracks.enable_features([FEAT[k] for k in cfg.enable])
        if cfg.disable:
            self.tracks.disable_features([real_key(self.tracks, k) for k in cfg.disable])
        self.emits = []
        self.tracks.refresh.connect(self._on_refresh)

    def rebuilt(self):
        """A new Driver whose tracks are CONSTRUCTED from a copy of this one's graph and array."""
        rb = self.cfg.rebuild
        if "mode" in rb:
            # construction mode of call 12 (direct / from_tracks / FeatureDict, ids kept or removed)
            self.reconstruct(int(rb["mode"]))
            return self
        shift = int(rb.get("shift", 0))
        nshift = int(rb.get("nshift", 0))       # 0-based NODE ids (without segmentation only)
        tr = self.tracks
        g = nx.DiGraph()
        idk, lk = tr.features.tracklet_key, tr.features.lineage_key
        for n, a in tr.graph.nodes(data=True):
            b = dict(a)
            for k in (idk, lk):
                if b.get(k) is not None:
                    b[k] = b[k] - shift
            if rb.get("posoff") and b.get("pos") is not None:
                # stored positions that are NOT the centroids of the masks (detection centres next to a label image)
                b["pos"] = [float(v) for v in b["pos"]]
                b["pos"][-1] += 0.25
            g.add_node(n - nshift, **b)
        for u, v, a in tr.graph.edges(data=True):
            b = dict(a)
            if rb.get("ecust"):
                b[ECUSTOM_KEY] = (u + v) % 2        # 0 is falsy but not None
            g.add_edge(u - nshift, v - nshift, **b)
        seg = None if tr.segmentation is None else np.array(tr.segmentation, copy=True)
        if rb.get("orphan") and seg is not None:
            # a label that belongs to no node (an unselected detection): the first background pixel gets label 77
            flat = seg.reshape(-1)
            zeros = np.flatnonzero(flat == 0)
            if len(zeros):
                flat[zeros[0]] = 77
        return Driver(self.cfg, graph=g, seg=seg, shift=shift, ecust=bool(rb.get("ecust")), nshift=nshift)

    def warm_up(self):
        """Use every node id once at a time point it will (mostly) not have later, link and query the nodes, then
        delete them all: the graph is empty again, ids / counters / anything cached per id are not fresh any more."""
        cfg = self.cfg
        N, T = cfg.N, cfg.T
        times = {n: (T - 1 - ((n - 1) % T)) for n in range(1, N + 1)}
        order = sorted(times, key=lambda n: (times[n], n))
        if cfg.has_seg:
            for n in order:
                self.apply([K_PAINT, times[n], 1 << ((n - 1) % cfg.P), n, 2 * n])
        else:
            for n in order:
                self.apply([K_ADDNODE, n, times[n], n, 0])
        for a, b in zip(order, order[1:]):
            if times[a] < times[b]:
                self.apply([K_ADDEDGE, a, b, 0, 0])
        tr = self.tracks
        for n in order:
            for t in range(T):
                tr.get_track_neighbors(tr.get_track_id(n - self.nshift), t)
            tr.get_time(n - self.nshift)
        for n in order:
            self.apply([K_DELNODE, n, 0, 0, 0])
        assert tr.graph.number_of_nodes() == 0, "warm-up must leave an empty graph"
        self.emits = []

    def reconstruct(self, mode):
        """Call 12: replace self.tracks by a NEW SolutionTracks constructed from a copy of the current graph
        (and array).  mode bits: 1 track ids removed from the copy, 2 lineage ids removed, 4 through Tracks(...)
        and SolutionTracks.from_tracks, 8 position and area removed (segmentation only), 16 constructed with
        features = a copy of the old object's FeatureDict."""
        import copy

        from funtracks.data_model import Tracks
        cfg, tr = self.cfg, self.tracks
        drop = set()
        if mode & 1:
            drop.add(tr.features.tracklet_key)
        if mode & 2:
            drop.add(tr.features.lineage_key)
        if mode & 8 and cfg.has_seg:
            drop.update(["pos", "area"])
        g = nx.DiGraph()
        for n, a in tr.graph.nodes(data=True):
            g.add_node(n, **{k: v for k, v in a.items() if k not in drop})
        for u, v, a in tr.graph.edges(data=True):
            g.add_edge(u, v, **dict(a))
        kw = {}
        if cfg.has_seg:
            kw["segmentation"] = np.array(tr.segmentation, copy=True)
            kw["scale"] = [1, *cfg.scale] if cfg.use_scale else None
        else:
            kw["ndim"] = 3
        if mode & 16:
            new = SolutionTracks(g, features=copy.deepcopy(tr.features), **kw)
        else:
            if cfg.per_axis_pos and not cfg.has_seg:
                kw["pos_attr"] = ["y", "x"]
            if cfg.custom_keys and not cfg.has_seg:
                kw.update(CUSTOM_NAMES)
            new = SolutionTracks.from_tracks(Tracks(g, **kw)) if mode & 4 else SolutionTracks(g, **kw)
        self.tracks = new
        self._after_construction()

    def _after_construction(self):
        cfg = self.cfg
        if cfg.reg_cust and CUSTOM_KEY not in self.tracks.features:
            self.tracks.features[CUSTOM_KEY] = {
                "feature_type": "node", "value_type": "int", "num_values": 1,
                "display_name": "custom", "required": False, "default_value": None}
        if self.ecust and ECUSTOM_KEY not in self.tracks.features:
            self.tracks.features[ECUSTOM_KEY] = {
                "feature_type": "edge", "value_type": "int", "num_values": 1,
                "display_name": "edge custom", "required": False, "default_value": None}
        if cfg.enable:
            self.tracks.enable_features([FEAT[k] for k in cfg.enable])
        self.emits = []
        self.tracks.refresh.connect(self._on_refresh)

    def _on_refresh(self, *args):
        a = args[0] if args else None
        self.emits.append(int(a) + self.nshift if isinstance(a, (int, np.integer)) and not isinstance(a, bool) else 0)

    # ------------------------------------------------------------------ calls
    def pixels_of(self, t, bits):
        """numpy multi-index of the in-frame positions selected by the bit mask"""
        cfg = self.cfg
        idx = [r for r in range(cfg.P) if (bits >> r) & 1]
        coords = [np.asarray(c) for c in np.unravel_index(np.array(idx, dtype=int), cfg.dims)]
        if isinstance(cfg.embed, dict):
            for ax, m in enumerate(cfg.embed["amap"]):
                if m is not None:
                    coords[ax] = np.array([m[c] for c in coords[ax]], dtype=int)
            t = cfg.embed["tmap"][t]
        elif cfg.embed:
            coords[-1] = np.array([cfg.embed[1][c] for c in coords[-1]], dtype=int)
        return (np.full(len(idx), t, dtype=int), *coords)

    def real_time(self, t):
        return self.cfg.embed["tmap"][t] if isinstance(self.cfg.embed, dict) and 0 <= t < len(self.cfg.embed["tmap"]) else t

    def apply_prim(self, c):
        """Construct one primitive action directly (it applies itself). Returns the action object."""
        from funtracks.actions import (AddEdge, AddNode, DeleteEdge, DeleteNode, UpdateNodeAttrs,
                                       UpdateNodeSeg, UpdateTrackIDs)
        tr = self.tracks
        k = c[0]
        if k == KP_ADDNODE:
            n, t, tid, lid = c[1], c[2], c[3], c[4]
            attrs = {tr.features.time_key: t, tr.features.tracklet_key: tid - self.shift}
            if lid:
                attrs[tr.features.lineage_key] = lid - self.shift
            pixels = None
            if self.cfg.has_seg:
                pixels = self.pixels_of(t, 1)
                # the caller's attribute dict carries (stale) values of computed features, e.g. copied from another
                # node: the annotators must overwrite them with the measurements of the given pixels
                attrs["area"] = 999.0
                attrs["pos"] = [7.0] * len(self.cfg.dims)
            else:
                attrs[real_key(tr, "pos")] = user_pos(n)
            return AddNode(tr, n, attrs, pixels)
        if k == KP_DELNODE:
            return DeleteNode(tr, c[1])
        if k == KP_ADDEDGE:
            return AddEdge(tr, (c[1], c[2]))
        if k == KP_DELEDGE:
            return DeleteEdge(tr, (c[1], c[2]))
        if k == KP_UPDTIDS:
            return UpdateTrackIDs(tr, c[1], c[2] - self.shift, (c[3] - self.shift) if c[3] else None)
        if k == KP_UPDSEG:
            t = int(tr.get_time(c[1]))
            return UpdateNodeSeg(tr, c[1], self.pixels_of(t, c[2]), added=bool(c[3]))
        if k == KP_UPDATTRS:
            key = {1: CUSTOM_KEY, 2: tr.features.time_key}[c[2]]
            return UpdateNodeAttrs(tr, c[1], {key: c[3] - 1})
        raise RuntimeError(f"unknown call {c}")

    def apply(self, c):
        """Execute one call of the alphabet. Returns (ok, err, emits, ret)."""
        tr = self.tracks
        self.emits = []
        k = c[0]
        ret = True
        restore = None
        if self.nshift and k in (K_ADDNODE, K_ADDEDGE, K_DELEDGE, K_DELNODE, K_SWAP, K_SETATTR):
            # real NODE ids are the model's minus nshift (node id 0 occurs)
            c = list(c)
            c[1] -= self.nshift
            if k in (K_ADDEDGE, K_DELEDGE, K_SWAP):
                c[2] -= self.nshift
        try:
            if k == K_ADDNODE:
                n, t, tid, fl = c[1], c[2], c[3], c[4]
                attrs = {}
                if not fl & 4:
                    attrs[tr.features.time_key] = t
                if not fl & 8:
                    attrs[tr.features.tracklet_key] = tid - self.shift
                if not fl & 2 and not self.cfg.has_seg:
                    if self.cfg.per_axis_pos:
                        attrs["y"], attrs["x"] = user_pos(n + self.nshift)
                        if fl & 16:
                            del attrs["x"]          # only part of the per-axis position
                    elif not fl & 16:
                        attrs[real_key(tr, "pos")] = user_pos(n + self.nshift)
                pixels = None
                if fl & 32 and not self.cfg.has_seg:
                    pixels = (np.array([t]), np.array([0]), np.array([0]))   # pixels without a segmentation
                UserAddNode(tr, n, attrs, pixels=pixels, force=bool(fl & 1))
            elif k == K_ADDEDGE:
                UserAddEdge(tr, (c[1], c[2]), force=bool(c[3]))
            elif k == K_DELEDGE:
                UserDeleteEdge(tr, (c[1], c[2]))
            elif k == K_DELNODE:
                UserDeleteNode(tr, c[1])
            elif k == K_SWAP:
                UserSwapPredecessors(tr, (c[1], c[2]))
            elif k == K_SETATTR:
                key = {1: CUSTOM_KEY, 2: tr.features.time_key, 3: tr.features.tracklet_key, 9: None, 10: None,
                       4: tr.features.lineage_key, 5: real_key(tr, "pos"), 6: "area", 7: "iou",
                       8: "circularity"}[c[2]]
                if c[2] in (9, 10):
                    # two keys in one call, the custom attribute and the (protected) time, in either order
                    pair = [(CUSTOM_KEY, c[3] - 1), (tr.features.time_key, c[3] - 1)]
                    UserUpdateNodeAttrs(tr, c[1], dict(pair if c[2] == 9 else pair[::-1]))
                    return True, "ok", list(self.emits), ret
                # model value v is stored as v - 1, so that the falsy value 0 occurs
                val = c[3] - 1 if c[2] != 5 else [float(c[3]), float(c[3])]
                UserUpdateNodeAttrs(tr, c[1], {key: val})
            elif KP_ADDNODE <= k <= KP_UPDATTRS:
                self.last_prim = self.apply_prim(c)
            elif k == K_UNDO:
                ret = bool(tr.undo())
            elif k == K_REDO:
                ret = bool(tr.redo())
            elif k == K_PAINT:
                t, bits, v, tf = c[1], c[2], c[3], c[4]
                if t >= self.cfg.T:
                    # a stroke over two time points: the same in-frame pixels in frames t - T and t - T + 1
                    a, b = self.pixels_of(t - self.cfg.T, bits), self.pixels_of(t - self.cfg.T + 1, bits)
                    px = tuple(np.concatenate([u, w]) for u, w in zip(a, b))
                else:
                    px = self.pixels_of(t, bits)
                seg = tr.segmentation
                old = seg[px].copy()
                restore = (px, old)
                seg[px] = v                       # the caller paints first
                updated = []
                for ov in sorted(set(int(x) for x in old)):
                    sel = old == ov
                    updated.append((tuple(a[sel] for a in px), ov))
                UserUpdateSegmentation(tr, v, updated, tf // 2 - self.shift, force=bool(tf % 2))
            elif k == K_ENABLE:
                keys = [real_key(tr, FEAT_BITS[i]) for i in range(len(FEAT_BITS)) if (c[1] >> i) & 1]
                if c[1] & 256:
                    keys.append("no_such_feature")
                tr.enable_features(keys, recompute=bool(c[2]))
            elif k == K_DISABLE:
                keys = [real_key(tr, FEAT_BITS[i]) for i in range(len(FEAT_BITS)) if (c[1] >> i) & 1]
                if c[1] & 256:
                    keys.append("no_such_feature")
                tr.disable_features(keys)
            elif k == K_REBUILD:
                self.reconstruct(c[1])
            else:
                raise RuntimeError(f"unknown call {c}")
            return True, "ok", list(self.emits), ret
        except Exception as e:  # noqa: BLE001 - the outcome IS the observation
            if isinstance(e, RuntimeError) and "unknown call" in str(e):
                raise
            name = type(e).__name__
            if isinstance(e, InvalidActionError) and getattr(e, "forceable", False):
                name += "!"
            if restore is not None:
                # the caller restores the painted pixels after a refused paint (C11)
                tr.segmentation[restore[0]] = restore[1]
            return False, name, list(self.emits), False

    # ------------------------------------------------------------- projection
    def project(self, queries=False):
        return project(self.tracks, self.cfg, queries, self.shift, self.nshift)


class _NodeView:
    """Read-only view of a tracks object whose node ids are shifted up by k (for projection only)."""

    def __init__(self, tr, k):
        import networkx as nx
        self._tr = tr
        self.graph = nx.relabel_nodes(tr.graph, {n: n + k for n in tr.graph.nodes}, copy=True)
        ta = tr.track_annotator

        class TA:
            tracklet_id_to_nodes = {i: [n + k for n in ns] for i, ns in ta.tracklet_id_to_nodes.items()}
            lineage_id_to_nodes = {i: [n + k for n in ns] for i, ns in ta.lineage_id_to_nodes.items()}
            max_tracklet_id = ta.max_tracklet_id
            max_lineage_id = ta.max_lineage_id
        self.track_annotator = TA

        self._k = k

    def get_track_neighbors(self, track_id, time):
        p, s = self._tr.get_track_neighbors(track_id, time)
        return (p + self._k if p is not None else None), (s + self._k if s is not None else None)

    def __getattr__(self, name):
        return getattr(self._tr, name)


def _unshift_nodes(p):
    return p


def sub_array(arr, cfg):
    """the abstract array inside an embedded real array (dict embedding)"""
    e = cfg.embed
    idx = [e["tmap"]] + [m if m is not None else list(range(arr.shape[k + 1])) for k, m in enumerate(e["amap"])]
    return arr[np.ix_(*idx)]


def rat(x, bound=64):
    """float -> [num, den] (exact small rational) or [-7, 0] if it is not one"""
    if x is None:
        return None
    try:
        xf = float(x)
    except (TypeError, ValueError):
        return [-7, 0]
    if math.isnan(xf) or math.isinf(xf):
        return [-7, 0]
    f = Fraction(xf).limit_denominator(bound)
    if abs(float(f) - xf) > 1e-9:
        return [-7, 0]
    return [f.numerator, f.denominator]


def project(tr, cfg: Cfg, queries=False, shift=0, nshift=0):
    if nshift:
        # (the queries of a view: segmentation-free suites only - get_pixels is not translated)
        return _unshift_nodes(project(_NodeView(tr, nshift), cfg, queries and tr.segmentation is None, shift, 0))
    N = cfg.N
    g = tr.graph
    tk, idk, lk = tr.features.time_key, tr.features.tracklet_key, tr.features.lineage_key
    time, tid, lid, cust, area, pos = [], [], [], [], [], []
    extra_nodes = [n for n in g.nodes if not (isinstance(n, (int, np.integer)) and 1 <= n <= N)]
    for n in range(1, N + 1):
        if n not in g:
            time.append(-1); tid.append(0); lid.append(0); cust.append(0); area.append(-1); pos.append([])
            continue
        a = g.nodes[n]
        t = a.get(tk)
        if t is not None and isinstance(cfg.embed, dict):
            t = cfg.embed["tmap"].index(int(t)) if int(t) in cfg.embed["tmap"] else -2
        time.append(int(t) if t is not None else -2)
        v = a.get(idk); tid.append(int(v) + shift if v is not None else 0)
        v = a.get(lk) if lk is not None else None; lid.append(int(v) + shift if v is not None else 0)
        v = a.get(CUSTOM_KEY); cust.append(int(v) + 1 if v is not None else 0)
        v = a.get("area")
        if v is None:
            area.append(-1)
        else:
            r = rat(v, 1)
            area.append(r[0] if r[1] == 1 else -2)
        pk = tr.features.position_key
        if isinstance(pk, list):
            vals = [a.get(k) for k in pk]
            pos.append([] if any(x is None for x in vals) else [rat(x) for x in vals])
        else:
            v = a.get(pk) if pk is not None else None
            if v is None or (hasattr(v, "__len__") and any(x is None for x in v)):
                pos.append([])
            else:
                pos.append([rat(x) for x in v])
    E, iou, ecust = [], [], []
    for u, v in g.edges:
        E.append([int(u), int(v)])
        ev = g.edges[u, v].get(ECUSTOM_KEY)
        if ev is not None:
            ecust.append([int(u), int(v), int(ev) + 1])
        val = g.edges[u, v].get("iou")
        r = rat(val) if val is not None else [-1, 1]
        iou.append([int(u), int(v), r[0], r[1]])
    ta = tr.track_annotator
    t2n = [[int(i) + shift, int(n)] for i, ns in ta.tracklet_id_to_nodes.items() for n in ns]
    l2n = [[int(i) + shift, int(n)] for i, ns in ta.lineage_id_to_nodes.items() for n in ns]
    seg = []
    outside = 0
    if tr.segmentation is not None:
        arr = np.asarray(tr.segmentation)
        if isinstance(cfg.embed, dict):
            sub = sub_array(arr, cfg)
            outside = int(np.count_nonzero(arr)) - int(np.count_nonzero(sub))
            arr = sub
        elif cfg.embed:
            sub = arr[..., cfg.embed[1]]
            outside = int(np.count_nonzero(arr)) - int(np.count_nonzero(sub))
            arr = sub
        seg = [int(x) for x in arr.reshape(-1)]
    shpv, shpr = shape_digests(tr, cfg)
    rmap = dict(RFEAT)
    rmap.update({tk: "time", idk: "tid"})
    if lk is not None:
        rmap[lk] = "lid"
    if isinstance(tr.features.position_key, str):
        rmap[tr.features.position_key] = "pos"
    act = sorted(rmap.get(k, k) for k in tr.annotators.features)
    reg = sorted({"pos" if k in ("z", "y", "x") else rmap.get(k, k) for k in tr.features})
    out = {
        "time": time, "E": E, "tid": tid, "lid": lid, "t2n": t2n, "l2n": l2n,
        "maxT": int(ta.max_tracklet_id) + shift, "maxL": int(ta.max_lineage_id) + shift,
        "cust": cust, "pos": pos, "area": area, "iou": iou, "ecust": ecust, "seg": seg,
        "act": act, "reg": reg, "shpv": shpv, "shpr": shpr,
        "ulen": len(tr.action_history.undo_stack), "rlen": len(tr.action_history.redo_stack),
        "extra": len(extra_nodes) + outside,
        # number of keys of the two lookup dicts (an entry with an empty list is invisible in t2n / l2n)
        "nkeys": [len(ta.tracklet_id_to_nodes), len(ta.lineage_id_to_nodes)],
        "scale": [rat(x) for x in tr.scale] if tr.scale is not None else [],
    }
    if queries:
        out["q"] = project_queries(tr, cfg, shift)
    return out


SHAPE_KEYS = ["circularity", "perimeter", "ellipse_axis_radii"]
SHAPE_ATTR = {"circularity": "circularity", "perimeter": "perimeter", "ellipse_axis_radii": "axes"}


def digest(v):
    """stored shape value -> short string ('' = None / absent)"""
    if v is None:
        return ""
    if isinstance(v, (list, tuple, np.ndarray)):
        return "[" + ",".join(digest(x) for x in v) + "]"
    try:
        return repr(round(float(v), 7))
    except (TypeError, ValueError):
        return "?" + str(v)[:20]


def shape_digests(tr, cfg):
    """per shape key, per node: digest of the stored value and of a from-scratch computation on
    a copy of the same array (only where a value is stored)."""
    N = cfg.N
    shpv = [["" for _ in range(N)] for _ in SHAPE_KEYS]
    shpr = [["" for _ in range(N)] for _ in SHAPE_KEYS]
    if tr.segmentation is None:
        return shpv, shpr
    from funtracks.annotators._regionprops_extended import regionprops_extended
    spacing = None if tr.scale is None else tuple(tr.scale[1:])
    for n in range(1, N + 1):
        if n not in tr.graph:
            continue
        a = tr.graph.nodes[n]
        region = None
        for ki, key in enumerate(SHAPE_KEYS):
            v = a.get(key)
            shpv[ki][n - 1] = digest(v)
            if v is None:
                continue
            if region is None:
                t = a.get(tr.features.time_key)
                frame = np.array(tr.segmentation[int(t)], copy=True)
                masked = np.where(frame == n, n, 0)
                regs = regionprops_extended(masked, spacing=spacing) if masked.max() > 0 else []
                region = regs[0] if regs else False
            if region is False:
                shpr[ki][n - 1] = "nomask"
            else:
                try:
                    rv = getattr(region, SHAPE_ATTR[key])
                    if isinstance(rv, tuple):
                        rv = list(rv)
                    shpr[ki][n - 1] = digest(rv)
                except Exception as e:  # noqa: BLE001
                    shpr[ki][n - 1] = "exc:" + type(e).__name__
    return shpv, shpr


def project_queries(tr, cfg, shift=0):
    """Answers of the public queries, for every id and every time point (C06, C07)."""
    ids = range(1 - shift, int(tr.track_annotator.max_tracklet_id) + 2)
    nbr, has = [], []
    for i in ids:
        row_n, row_h = [], []
        for t in range(-1, cfg.T + 1):
            # a query that raises (possible only on a corrupted state) is recorded as an impossible answer
            try:
                p, s = tr.get_track_neighbors(i, t)
                row_n.append([int(p) if p is not None else 0, int(s) if s is not None else 0])
            except Exception:  # noqa: BLE001
                row_n.append([-9, -9])
            try:
                row_h.append(1 if tr.has_track_id_at_time(i, t) else 0)
            except Exception:  # noqa: BLE001
                row_h.append(-9)
        nbr.append(row_n); has.append(row_h)
    pix = []
    if tr.segmentation is not None:
        shape = tr.segmentation.shape
        for n in range(1, cfg.N + 1):
            if n in tr.graph:
                try:
                    p = tr.get_pixels(n)
                    flat = np.ravel_multi_index(p, shape) + 1
                    pix.append(sorted(int(x) for x in flat))
                except Exception:  # noqa: BLE001
                    pix.append([-9])
            else:
                pix.append([])
    return {"nbr": nbr, "has": has, "pix": pix,
            "next_tid": int(tr.get_next_track_id()) + shift, "next_lid": int(tr.get_next_lineage_id()) + shift}


# StrokeMenu of MC.tla (3x3x3 frames, in-frame position = 9z + 3y + x)
STROKE_MENU = [13851, 113467392, 511, 16 + 8192 + 4194304, 1, 8192, 1 + 2 + 8 + 16]
# SwitchMasks of MC.tla
SWITCH_MASKS_SEG = [1, 2, 4, 8, 3, 5, 6, 12, 16, 64, 128, 15, 256, 257]
SWITCH_MASKS_NOSEG = [8, 32, 40, 1, 256, 264]


def alphabet(drv: Driver, kinds=None, wide=True):
    """All calls of the alphabet in the current real state (mirrors Calls(s) in MC.tla)."""
    cfg, tr = drv.cfg, drv.tracks
    N, T = cfg.N, cfg.T
    maxT = int(tr.track_annotator.max_tracklet_id) + drv.shift
    nodes = range(1, N + 1)
    out = []
    kinds = kinds or {1, 2, 3, 4, 5, 6, 9}
    if K_ADDNODE in kinds and not cfg.has_seg:
        for n in nodes:
            for t in range(T):
                for i in range(1, maxT + 3):
                    for f in (0, 1):
                        out.append([K_ADDNODE, n, t, i, f])
                for i in sorted({1, maxT + 1}):
                    for f in (2, 3, 16, 17, 32, 33):
                        out.append([K_ADDNODE, n, t, i, f])
            out.append([K_ADDNODE, n, 0, 1, 4])
            out.append([K_ADDNODE, n, 0, 1, 8])
    if K_ADDEDGE in kinds:
        out += [[K_ADDEDGE, u, v, f, 0] for u in nodes for v in nodes for f in (0, 1)]
    if K_DELEDGE in kinds:
        out += [[K_DELEDGE, u, v, 0, 0] for u in nodes for v in nodes]
    if K_DELNODE in kinds:
        out += [[K_DELNODE, n, 0, 0, 0] for n in nodes]
    if K_SWAP in kinds:
        out += [[K_SWAP, a, b, 0, 0] for a in nodes for b in nodes]
    if K_SETATTR in kinds:
        keys = (1, 2, 3, 4, 5, 6, 7, 8, 9, 10) if cfg.has_seg else (1, 2, 3, 4, 9, 10)
        out += [[K_SETATTR, n, k, 1, 0] for n in nodes for k in keys]
    if KP_ADDNODE in kinds:
        maxL = int(tr.track_annotator.max_lineage_id) + drv.shift
        for n in nodes:
            for t in range(T):
                for i in range(1, maxT + 2):
                    for l in sorted({0, 1, maxL + 1}):
                        out.append([KP_ADDNODE, n, t, i, l])
            out.append([KP_DELNODE, n, 0, 0, 0])
            for i in range(1, maxT + 2):
                for l in sorted({0, 1, maxL + 1}):
                    out.append([KP_UPDTIDS, n, i, l, 0])
            out.append([KP_UPDATTRS, n, 1, 2, 0])
            out.append([KP_UPDATTRS, n, 2, 2, 0])
            if cfg.has_seg:
                for b in range(1, 2 ** cfg.P):
                    for a in (0, 1):
                        out.append([KP_UPDSEG, n, b, a, 0])
        out += [[KP_ADDEDGE, u, v, 0, 0] for u in nodes for v in nodes]
        out += [[KP_DELEDGE, u, v, 0, 0] for u in nodes for v in nodes]
    if K_ENABLE in kinds:
        masks = SWITCH_MASKS_SEG if cfg.has_seg else SWITCH_MASKS_NOSEG
        if len(cfg.dims) == 3:
            # (3D: funtracks' ellipsoid axes raise "math domain error" on masks of separated voxels - an observation
            #  outside the listed properties, DESIGN 0.5; the axes feature is left out of the 3D switch calls)
            masks = [m for m in masks if not m & 128]
        out += [[K_ENABLE, m, r, 0, 0] for m in masks for r in (0, 1)]
        out += [[K_DISABLE, m, 0, 0, 0] for m in masks]
    if K_REBUILD in kinds:
        out += [[K_REBUILD, m, 0, 0, 0] for m in (REBUILD_MODES_SEG if cfg.has_seg else REBUILD_MODES_NOSEG)]
    if K_PAINT in kinds and cfg.has_seg:
        g = tr.graph
        for t in range(T):
            for bits in (STROKE_MENU if cfg.max_stroke == 99 else range(1, 2 ** cfg.P)):
                if 0 < cfg.max_stroke < 99 and bin(bits).count("1") > cfg.max_stroke:
                    continue
                for v in range(0, N + 1):
                    # a stroke with an existing label stays in that label's frame (C07 domain)
                    if v != 0 and v in g and int(g.nodes[v][tr.features.time_key]) != t:
                        continue
                    if v == 0 or v in g:
                        # track id and force only matter when the stroke creates a node
                        out.append([K_PAINT, t, bits, v, 2])
                        continue
                    for i in sorted({1, maxT + 1}):
                        for f in (0, 1):
                            out.append([K_PAINT, t, bits, v, 2 * i + f])
        # strokes over two time points (TwoFrameBits of MC.tla)
        for t in range(T - 1):
            for bits in ([1] if cfg.max_stroke == 99 else [2 ** r for r in range(cfg.P)]):
                for v in range(0, N + 1):
                    if v == 0 or v in g:
                        out.append([K_PAINT, T + t, bits, v, 2])
                    else:
                        for i in sorted({1, maxT + 1}):
                            for f in (0, 1):
                                out.append([K_PAINT, T + t, bits, v, 2 * i + f])
    return out
