"""Run the real pipeline functions (label utilities, candidate graph, name-map inference,
relabelling, import, export) on inputs of the TLA+ universes and record inputs + outputs.

usage: io_drivers.py <part> <outdir> <nshards> <args.json>
"""
from __future__ import annotations

import itertools
import json
import os
import sys
import warnings
from multiprocessing import Pool

import numpy as np

warnings.filterwarnings("ignore")
sys.path.insert(0, os.path.dirname(os.path.abspath(__file__)))


def exc_name(e):
    return type(e).__name__


# ------------------------------------------------------------------------------- C19
def gen_labels_unique(args):
    F, PX, L = args["F"], args["PX"], args["L"]
    for vals in itertools.product(range(L + 1), repeat=F * PX):
        yield {"inp": [list(vals[f * PX:(f + 1) * PX]) for f in range(F)], "multiseg": False}
    # multiple hypotheses: (H, T, PX) arrays; the frames of the TLA+ model are the H*T slices
    H = args.get("H", 0)
    if H:
        Tm = F // H
        for vals in itertools.product(range(L + 1), repeat=F * PX):
            yield {"inp": [list(vals[f * PX:(f + 1) * PX]) for f in range(F)], "multiseg": True, "H": H, "T": Tm}


def run_labels_unique(x):
    from funtracks.utils import ensure_unique_labels
    a = np.array(x["inp"], dtype=np.uint32)
    F, PX = a.shape
    if x["multiseg"]:
        arr = a.reshape(x["H"], x["T"], 1, PX)
        out = ensure_unique_labels(arr, multiseg=True).reshape(F, PX)
    else:
        arr = a.reshape(F, 1, PX)
        out = ensure_unique_labels(arr).reshape(F, PX)
    x["out"] = [[int(v) for v in row] for row in out]
    return x


def gen_track_labels(args):
    yield from args["inputs"]


SEGS_TL = [[[1, 2], [1, 2], [1, 2]], [[1, 0], [2, 1], [0, 2]], [[1, 1], [2, 2], [2, 1]], [[2, 1], [0, 0], [1, 2]]]


def run_track_labels(x):
    import networkx as nx
    from funtracks.utils import relabel_segmentation_with_track_id
    K = 2
    seg = np.array(SEGS_TL[x["si"] - 1], dtype=np.uint16)      # (T, PX)
    T, PX = seg.shape
    g = nx.DiGraph()
    for n in x["nd"]:
        g.add_node(n, time=(n - 1) // K, seg_id=((n - 1) % K) + 1)
    g.add_edges_from([tuple(e) for e in x["E"]])
    out = relabel_segmentation_with_track_id(g, seg.reshape(T, 1, PX)).reshape(T, PX)
    x["out"] = [[int(v) for v in row] for row in out]
    return x


PARTS = {
    "labels_unique": (gen_labels_unique, run_labels_unique),
    "track_labels": (gen_track_labels, run_track_labels),
}


def work(a):
    part, items, out = a
    run = PARTS[part][1]
    n = 0
    with open(out, "w") as f:
        for x in items:
            try:
                r = run(x)
            except Exception as e:  # noqa: BLE001 - outcome is the observation
                r = dict(x)
                r["exc"] = exc_name(e)
                r["msg"] = str(e)[:200]
            r.setdefault("exc", "")
            f.write(json.dumps(r, separators=(",", ":")) + "\n")
            n += 1
    return n


def main():
    part, outdir, nsh = sys.argv[1], sys.argv[2], int(sys.argv[3])
    args = json.load(open(sys.argv[4]))
    os.makedirs(outdir, exist_ok=True)
    items = list(PARTS[part][0](args))
    jobs = [(part, items[s::nsh], os.path.join(outdir, f"io_{s:03d}.ndjson")) for s in range(nsh)]
    with Pool(min(nsh, os.cpu_count() or 1)) as p:
        res = p.map(work, jobs)
    print(json.dumps({"records": sum(res), "shards": nsh}))


if __name__ == "__main__":
    main()
