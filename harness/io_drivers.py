"""Run the real pipeline functions (label utilities, candidate graph, name-map inference,
relabelling, import, export) on inputs of the TLA+ universes and record inputs + outputs.

usage: io_drivers.py <part> <outdir> <nshards> <args.json>
"""
from __future__ import annotations

import itertools
import json
import os
import sys
import warnings
from multiprocessing import Pool

import numpy as np

warnings.filterwarnings("ignore")
sys.path.insert(0, os.path.dirname(os.path.abspath(__file__)))


def exc_name(e):
    return type(e).__name__


# ------------------------------------------------------------------------------- C19
def gen_labels_unique(args):
    F, PX, L = args["F"], args["PX"], args["L"]
    lm = args.get("labelmap") or list(range(L + 1))
    for vals in itertools.product(range(L + 1), repeat=F * PX):
        yield {"inp": [[lm[v] for v in vals[f * PX:(f + 1) * PX]] for f in range(F)], "multiseg": False,
               "dtype": args.get("dtype", "uint32")}
    # multiple hypotheses: (H, T, PX) arrays; the frames of the TLA+ model are the H*T slices
    H = args.get("H", 0)
    if H:
        Tm = F // H
        for vals in itertools.product(range(L + 1), repeat=F * PX):
            yield {"inp": [list(vals[f * PX:(f + 1) * PX]) for f in range(F)], "multiseg": True, "H": H, "T": Tm}
            yield {"inp": [list(vals[f * PX:(f + 1) * PX]) for f in range(F)], "multiseg": True, "H": H, "T": Tm,
                   "noncontig": True}


def run_labels_unique(x):
    from funtracks.utils import ensure_unique_labels
    a = np.array(x["inp"], dtype=np.dtype(x.get("dtype", "uint32")))
    F, PX = a.shape
    if x["multiseg"]:
        arr = a.reshape(x["H"], x["T"], 1, PX)
        if x.get("noncontig"):
            # the same values in an array that is not C-contiguous in its first two axes
            arr = np.swapaxes(np.ascontiguousarray(np.swapaxes(arr, 0, 1)), 0, 1)
            assert not arr.flags["C_CONTIGUOUS"] or arr.shape[0] == 1 or arr.shape[1] == 1
        out = np.asarray(ensure_unique_labels(arr, multiseg=True)).reshape(F, PX)
    else:
        arr = a.reshape(F, 1, PX)
        out = ensure_unique_labels(arr).reshape(F, PX)
    x["out"] = [[int(v) for v in row] for row in out]
    return x


def gen_track_labels(args):
    for x in args["inputs"]:
        yield x
        # the same solution with a track_id attribute already stored on the nodes - one shared, lineage-style id
        yield dict(x, stid=1)


SEGS_TL = [[[1, 2], [1, 2], [1, 2]], [[1, 0], [2, 1], [0, 2]], [[1, 1], [2, 2], [2, 1]], [[2, 1], [0, 0], [1, 2]]]


def run_track_labels(x):
    import networkx as nx
    from funtracks.utils import relabel_segmentation_with_track_id
    K = 2
    seg = np.array(SEGS_TL[x["si"] - 1], dtype=np.uint16)      # (T, PX)
    T, PX = seg.shape
    g = nx.DiGraph()
    for n in x["nd"]:
        extra = {"track_id": 4} if x.get("stid") else {}
        g.add_node(n, time=(n - 1) // K, seg_id=((n - 1) % K) + 1, **extra)
    g.add_edges_from([tuple(e) for e in x["E"]])
    out = relabel_segmentation_with_track_id(g, seg.reshape(T, 1, PX)).reshape(T, PX)
    x["out"] = [[int(v) for v in row] for row in out]
    return x


# ------------------------------------------------------------------------------- C18
POSS = [(0, 0), (0, 2), (3, 4)]


def gen_cand_points(args):
    import random
    T, D = args["T"], args["D"]
    rnd = random.Random(args.get("seed", 0))
    dets = [(t, p) for t in range(T) for p in range(1, args.get("npos", len(POSS)) + 1)]
    for bits in range(1, 2 ** len(dets)):
        X = [d for k, d in enumerate(dets) if (bits >> k) & 1]
        if args.get("shuffle"):
            rnd.shuffle(X)
        for sc in args.get("scales", [[1, 1]]):
            yield {"pts": [list(d) for d in X], "D": D, "sc": sc}


def run_cand_points(x):
    from fractions import Fraction
    from funtracks.candidate_graph import compute_graph_from_points_list
    sc = x["sc"]
    unit = sc == [1, 1]
    # with a non-unit scale the points are given in voxel coordinates = world / scale
    pts = np.array([[t, Fraction(POSS[p - 1][0], sc[0]), Fraction(POSS[p - 1][1], sc[1])] for t, p in x["pts"]], dtype=float)
    g = compute_graph_from_points_list(pts, x["D"], scale=None if unit else [1, *sc])
    nodes = []
    for n, a in g.nodes(data=True):
        y, xx = [Fraction(float(v)).limit_denominator(64) for v in a["pos"]]
        nodes.append([int(n), int(a["time"]), y.numerator, y.denominator, xx.numerator, xx.denominator])
    x["nodes"] = nodes
    x["edges"] = [[int(u), int(v)] for u, v in g.edges]
    # the TLA+ side multiplies Poss by sc; here world = voxel * scale = Poss, so report scale 1
    x["sc"] = [1, 1]
    return x


def gen_cand_seg(args):
    T, PX = args["T"], args["PX"]
    per_frame = []
    for t in range(T):
        labs = [0, 2 * t + 1, 2 * t + 2]
        per_frame.append([list(v) for v in itertools.product(labs, repeat=PX)])
    for combo in itertools.product(*per_frame):
        for D, sx in args["variants"]:
            seg = [list(f) for f in combo]
            lm = args.get("labelmap")
            if lm:
                # large, non-contiguous label values (products of two labels overflow 16 bits)
                seg = [[lm[v] for v in f] for f in seg]
            yield {"seg": seg, "D": D, "sx": sx, "dtype": args.get("dtype", "uint16"), "axis": args.get("axis", "x")}


def run_cand_seg(x):
    from fractions import Fraction
    from funtracks.candidate_graph import compute_graph_from_seg
    seg = np.array(x["seg"], dtype=np.dtype(x.get("dtype", "uint16")))
    T, PX = seg.shape
    sx = x["sx"]
    if x.get("axis") == "z":
        # 3D + t: the row of PX pixels lies along z (the plane index), scaled by sx; y = x = 0
        g = compute_graph_from_seg(seg.reshape(T, PX, 1, 1), x["D"], iou=True, scale=None if sx == 1 else [1, sx, 1, 1])
    else:
        g = compute_graph_from_seg(seg.reshape(T, 1, PX), x["D"], iou=True, scale=None if sx == 1 else [1, 1, sx])
    nodes = []
    for n, a in g.nodes(data=True):
        pos = [Fraction(float(v)).limit_denominator(64) for v in a["pos"]]
        if x.get("axis") == "z":
            # reported as (y, x) = (the two coordinates that must be 0 - their sum, the coordinate along the row)
            y, xx = pos[1] + pos[2], pos[0]
        else:
            y, xx = pos
        area = Fraction(float(a["area"])).limit_denominator(64)
        nodes.append([int(n), int(a["time"]), area.numerator if area.denominator == 1 else -1,
                      y.numerator, y.denominator, xx.numerator, xx.denominator])
    x["nodes"] = nodes
    edges = []
    for u, v, a in g.edges(data=True):
        f = Fraction(float(a.get("iou", -1))).limit_denominator(64)
        edges.append([int(u), int(v), f.numerator, f.denominator])
    x["edges"] = edges
    return x


# ------------------------------------------------------------------------------- C17
def gen_namemap(args):
    sys.path.insert(0, os.path.join(os.path.dirname(os.path.abspath(__file__)), ".."))
    from vf import gen_namemap_data as G
    vocab = G.VOCAB_E if args["req"] == "EDGE" else G.VOCAB
    for n in range(0, args["maxlen"] + 1):
        for cols in itertools.permutations(vocab, n):
            yield {"cols": list(cols), "table": args["table"], "req": args["req"]}


def run_namemap(x):
    sys.path.insert(0, os.path.join(os.path.dirname(os.path.abspath(__file__)), ".."))
    from vf import gen_namemap_data as G
    from funtracks.import_export._name_mapping import infer_node_name_map
    table = G.TABLES[x["table"]]
    # feature metadata equivalent to the display-name table (what build_display_name_mapping reads)
    feats = {}
    for disp, (key, idx) in table.items():
        f = feats.setdefault(key, {"feature_type": "node", "num_values": 0, "value_names": [], "display_name": None})
        f["num_values"] += 1
        f["value_names"].append(disp)
    for key, f in feats.items():
        if f["num_values"] == 1:
            f["display_name"] = f["value_names"][0]
            f["value_names"] = None
    feats["iou"] = {"feature_type": "edge", "num_values": 1, "display_name": "IoU"}
    if x["req"] == "EDGE":
        from funtracks.import_export._name_mapping import infer_edge_name_map
        efeats = {"iou": {"feature_type": "edge", "num_values": 1, "display_name": "IoU"},
                  "area": {"feature_type": "node", "num_values": 1, "display_name": "Area"}}
        out = infer_edge_name_map(list(x["cols"]), efeats)
    else:
        out = infer_node_name_map(list(x["cols"]), list(G.REQUIRED[x["req"]]), feats)
    x["out"] = [[k, v if isinstance(v, list) else [v]] for k, v in out.items()]
    return x


# ------------------------------------------------------------------------------- C13
def gen_relabel(args):
    T, PX, L, S, M = args["T"], args["PX"], args["L"], args["S"], args["MaxNode"]
    slots = [(t, s) for t in range(T) for s in range(1, S + 1)]
    asgs = []
    for vals in itertools.product(range(-1, M + 1), repeat=len(slots)):
        used = [v for v in vals if v != -1]
        if len(set(used)) == len(used):
            asgs.append(vals)
    import random
    rnd = random.Random(args.get("seed", 0))
    arrays = list(itertools.product(range(L + 1), repeat=T * PX))
    cap = args.get("cap")
    for arr in arrays:
        use = asgs if not cap else rnd.sample(asgs, min(cap, len(asgs)))
        for vals in use:
            nodes = [[v, t, s] for (t, s), v in zip(slots, vals) if v != -1]
            rnd.shuffle(nodes)
            if args.get("via") == "dfpos":
                # positions are imported too: every node needs pixels, and its centroid must lie on them
                def inside(t, s):
                    px = [p for p in range(PX) if arr[t * PX + p] == s]
                    return px and (sum(px) // len(px)) in px
                if not nodes or not all(inside(t, s) for _, t, s in nodes):
                    continue
            yield {"seg": [list(arr[t * PX:(t + 1) * PX]) for t in range(T)], "nodes": nodes, "via": args.get("via", "fn")}


def run_relabel(x):
    import networkx as nx
    x["extra"] = 0          # non-zero pixels outside the frames of the universe (embedded variants)
    seg = np.array(x["seg"], dtype=np.uint16)
    T, PX = seg.shape
    nodes = x["nodes"]
    if x["via"] == "fn":
        from funtracks.import_export._import_segmentation import relabel_segmentation
        g = nx.DiGraph()
        g.add_nodes_from([n[0] for n in nodes])
        if not nodes:
            x["out"] = [[0] * PX for _ in range(T)]
            x["gnodes"] = []
            x["skipped"] = True
            return x
        out = relabel_segmentation(seg.reshape(T, 1, PX), g, [n[0] for n in nodes], [n[2] for n in nodes],
                                   [n[1] for n in nodes])
        x["out"] = [[int(v) for v in row] for row in np.asarray(out).reshape(T, PX)]
        x["gnodes"] = sorted(int(n) for n in g.nodes)
    else:
        import pandas as pd
        from funtracks.import_export.csv._import import tracks_from_df
        if not nodes:
            x["out"] = [[0] * PX for _ in range(T)]
            x["gnodes"] = []
            x["skipped"] = True
            return x
        def cx(t, s):
            px = [p for p in range(PX) if seg[t, p] == s]
            return float(sum(px)) / len(px) if px else 0.0
        df = pd.DataFrame({"id": [n[0] for n in nodes], "time": [n[1] for n in nodes], "seg_id": [n[2] for n in nodes],
                           "parent_id": [-1] * len(nodes), "y": [0.0] * len(nodes), "x": [cx(n[1], n[2]) for n in nodes]})
        nm = {"id": "id", "time": "time", "seg_id": "seg_id", "parent_id": "parent_id"}
        if x["via"] == "dfpos":
            nm["pos"] = ["y", "x"]
        if x["via"] == "tiffdir":
            # the array comes from a FOLDER of per-frame TIFFs with unpadded frame numbers (frame_0 .. frame_11):
            # abstract frames 0, 1 are real frames 2, 10 of 12, the others are empty
            import shutil
            import tempfile
            from pathlib import Path

            import tifffile
            from funtracks.import_export.csv._import import CSVTracksBuilder
            tmap, NF = [2, 10], 12
            d = Path(tempfile.mkdtemp(prefix="vf_tif_"))
            try:
                for k in range(NF):
                    fr = np.zeros((1, PX), dtype=np.uint16)
                    if k in tmap:
                        fr[0] = seg[tmap.index(k)]
                    tifffile.imwrite(d / f"frame_{k}.tif", fr)
                df["time"] = [tmap[n[1]] for n in nodes]
                b = CSVTracksBuilder()
                b.read_header(df)
                b.node_name_map = nm
                b.edge_name_map = None
                tr = b.build(df, d)
                full = np.asarray(tr.segmentation).reshape(NF, PX)
            finally:
                shutil.rmtree(d, ignore_errors=True)
            x["out"] = [[int(v) for v in full[k]] for k in tmap]
            x["extra"] = int(np.count_nonzero(full)) - int(np.count_nonzero(full[tmap]))
            x["gnodes"] = sorted(int(n) for n in tr.graph.nodes)
            return x
        if x["via"] == "builder":
            # one builder: prepare() sees ANOTHER array (frames swapped), build() gets the real one
            from funtracks.import_export.csv._import import CSVTracksBuilder
            b = CSVTracksBuilder()
            other = np.ascontiguousarray(seg[::-1]).reshape(T, 1, PX)
            b.prepare(df, other)
            b.node_name_map = nm
            b.edge_name_map = None
            tr = b.build(df, seg.reshape(T, 1, PX))
        else:
            tr = tracks_from_df(df, segmentation=seg.reshape(T, 1, PX), node_name_map=nm)
        x["out"] = [[int(v) for v in row] for row in np.asarray(tr.segmentation).reshape(T, PX)]
        x["gnodes"] = sorted(int(n) for n in tr.graph.nodes)
    return x


# ------------------------------------------------------------------------------- C12
INT_IDS = [3, 7, 8, 12]
BIG_IDS = [2 ** 53 + 1, 2 ** 53 + 2, 2 ** 53 + 3, 2 ** 53 + 5]
STR_IDS = ["a", "b", "c", "d"]
UNKNOWN = 99


def nx_relabel(g, back):
    import networkx as nx
    return nx.relabel_nodes(g, {n: back.get(int(n), -5) for n in g.nodes}, copy=True)


def gen_import(args):
    R_max = args["maxrows"]
    variants = args["variants"]            # list of [mapkind, noneenc]
    for R in range(1, R_max + 1):
        for idn in itertools.product(range(1, R + 1), repeat=R):
            for par in itertools.product(list(range(0, R + 1)) + [UNKNOWN], repeat=R):
                for time in itertools.product(range(3), repeat=R):
                    for kind in ("int", "str"):
                        malformed = len(set(idn)) < R or any(p == UNKNOWN or (p != 0 and p not in idn) for p in par) \
                            or any(p == i for p, i in zip(par, idn))
                        for drop in (["none"] if malformed else ["none", "time", "id", "parent_id", "pos", "badcol"]):
                            for mk, ne in (variants if drop == "none" else variants[:1]):
                                yield {"R": R, "idn": list(idn), "par": list(par), "time": list(time), "kind": kind,
                                       "drop": drop, "mapkind": mk, "noneenc": ne, "lincol": 0}
                            if not malformed:
                                # a source lineage-id column: 1 consistent, 2 one id for every row, 3 one id per row
                                for lc in (1, 2, 3):
                                    yield {"R": R, "idn": list(idn), "par": list(par), "time": list(time), "kind": kind,
                                           "drop": "none", "mapkind": variants[0][0], "noneenc": variants[0][1], "lincol": lc}


def run_import(x):
    import pandas as pd
    from funtracks.import_export.csv._import import tracks_from_df
    R, kind = x["R"], x["kind"]
    pool = INT_IDS if kind == "int" else STR_IDS
    big = x["mapkind"] == "bigids" and kind == "int"
    if big:
        # ids that float64 cannot tell apart; the result is reported in the ordinary ids of Import.tla
        pool = BIG_IDS
    unknown = 99 if kind == "int" else "zz"
    # an empty CSV cell is NaN once read; a literal "" only occurs in columns of string ids
    none = {"-1": -1, "nan": None, "empty": "" if kind == "str" else None}[x["noneenc"]]
    ids = [pool[k - 1] for k in x["idn"]]
    par = [none if p == 0 else (unknown if p == UNKNOWN else pool[p - 1]) for p in x["par"]]
    if kind == "int" and none is None:
        par = pd.array([p if p is not None else pd.NA for p in par], dtype="Int64")
    # "mixed": the first position column is integer-typed, the second holds half-integers (x + 0.5)
    off = 0.5 if x["mapkind"] == "mixed" else 0.0
    names = {"identity": {"time": "time", "id": "id", "parent_id": "parent_id", "y": "y", "x": "x", "c": "c"},
             "mixed": {"time": "time", "id": "id", "parent_id": "parent_id", "y": "y", "x": "x", "c": "c"},
             "bigids": {"time": "time", "id": "id", "parent_id": "parent_id", "y": "y", "x": "x", "c": "c"},
             "reindexed": {"time": "time", "id": "id", "parent_id": "parent_id", "y": "y", "x": "x", "c": "c"},
             "renamed": {"time": "t", "id": "ident", "parent_id": "par", "y": "Y", "x": "X", "c": "my_custom"}}[x["mapkind"]]
    df = pd.DataFrame({names["time"]: x["time"], names["id"]: ids, names["parent_id"]: par,
                       names["y"]: [(10 * r + 1) if off else float(10 * r + 1) for r in range(1, R + 1)],
                       names["x"]: [float(10 * r + 2) + off for r in range(1, R + 1)],
                       names["c"]: [100 + r for r in range(1, R + 1)]})
    if x["mapkind"] == "reindexed":
        df.index = list(reversed(range(R)))          # a DataFrame that was sorted / filtered before
    nm = {"time": names["time"], "id": names["id"], "parent_id": names["parent_id"],
          "pos": [names["y"], names["x"]], "custom": names["c"]}
    # a source track-id column (labels 40 + first row of the unbranched segment) on well-formed, time-forward tables
    x["tidcol"] = 0
    idn, parr = x["idn"], x["par"]
    wf = len(set(idn)) == R and all(p == 0 or (p in idn and p != i) for p, i in zip(parr, idn))
    if wf and all(p == 0 or x["time"][idn.index(p)] < x["time"][r] for r, p in enumerate(parr)):
        kids = {k: [r for r in range(R) if parr[r] == k] for k in idn}
        seg = {k: {k} for k in idn}
        for r in range(R):
            if parr[r] != 0 and len(kids[parr[r]]) == 1:
                merged = seg[parr[r]] | seg[idn[r]]
                for k in merged:
                    seg[k] = merged
        df["trk"] = [40 + min(idn.index(k) for k in seg[idn[r]]) + 1 for r in range(R)]
        nm["track_id"] = "trk"
        x["tidcol"] = 1
    x.setdefault("lincol", 0)
    if x["lincol"] and x["tidcol"]:
        comp = {k: {k} for k in idn}
        for r in range(R):
            if parr[r] != 0:
                merged = comp[parr[r]] | comp[idn[r]]
                for k in merged:
                    comp[k] = merged
        df["lin"] = {1: [70 + min(idn.index(k) for k in comp[idn[r]]) + 1 for r in range(R)],
                     2: [70] * R, 3: [70 + r + 1 for r in range(R)]}[x["lincol"]]
        nm["lineage_id"] = "lin"
    else:
        x["lincol"] = 0
    if x["drop"] in ("time", "id", "parent_id", "pos"):
        del nm[x["drop"]]
    elif x["drop"] == "badcol":
        nm["time"] = "no_such_column"
    try:
        tr = tracks_from_df(df, node_name_map=nm)
    except ValueError:
        x["err"] = "ValueError"
        x["nodes"], x["edges"], x["tids"], x["lids"] = [], [], [], []
        return x
    g = tr.graph
    nodes = []
    for n, a in g.nodes(data=True):
        pos = a.get("pos")
        px = float(pos[1]) - off            # (the known offset of the "mixed" variant is taken off again)
        nodes.append([int(n), int(a["time"]), int(round(float(pos[0]))) if float(pos[0]).is_integer() else -1,
                      int(round(px)) if px.is_integer() else -1,
                      int(a["custom"]) if a.get("custom") is not None else -1])
    if big:
        back = {b: i for b, i in zip(BIG_IDS, INT_IDS)}
        g = nx_relabel(g, back)
        nodes = [[back.get(r[0], -5), *r[1:]] for r in nodes]
    x["err"] = "ok"
    x["tids"] = [[int(n), int(a["track_id"]) if a.get("track_id") is not None else -1] for n, a in g.nodes(data=True)]
    x["lids"] = [[int(n), int(a["lineage_id"]) if a.get("lineage_id") is not None else -1] for n, a in g.nodes(data=True)]
    x["nodes"] = nodes
    x["edges"] = [[int(u), int(v)] for u, v in g.edges]
    return x


# ------------------------------------------------------------------------------- C12: name map validation
MV = {"tm": ["ok", "none", "bad", "absent"], "idm": ["ok", "absent"],
      "pos": ["absent", "yx", "y", "empty", "none", "str", "ybad"],
      "leg": ["absent", "yx", "x", "zyx", "zbad", "ybad3"],
      "cu": ["absent", "ok", "bad", "none", "empty"], "ax": ["absent", "two", "three", "str"],
      "seg": [False, True], "em": ["nomap", "empty", "iou", "collide"]}


def gen_mapvalid(args):
    keys = list(MV)
    for vals in itertools.product(*[MV[k] for k in keys]):
        yield {"m": dict(zip(keys, vals))}


def mv_maps(m):
    nm = {"parent_id": "parent_id"}
    v = {"ok": "t", "none": None, "bad": "nocol"}
    if m["tm"] != "absent":
        nm["time"] = v[m["tm"]]
    if m["idm"] == "ok":
        nm["id"] = "id"
    pv = {"yx": ["y", "x"], "y": ["y"], "empty": [], "none": None, "str": "y", "ybad": ["y", "nocol"]}
    if m["pos"] != "absent":
        nm["pos"] = pv[m["pos"]]
    if m["leg"] == "yx":
        nm["y"], nm["x"] = "y", "x"
    elif m["leg"] == "x":
        nm["x"] = "x"
    elif m["leg"] in ("zyx", "zbad", "ybad3"):
        nm["z"] = "nocol" if m["leg"] == "zbad" else "a"
        nm["y"] = "nocol" if m["leg"] == "ybad3" else "y"
        nm["x"] = "x"
    cv = {"ok": "c", "bad": "nocol", "none": None, "empty": []}
    if m["cu"] != "absent":
        nm["custom"] = cv[m["cu"]]
    av = {"two": ["a", "b"], "three": ["a", "b", "d"], "str": "a"}
    if m["ax"] != "absent":
        nm["ellipse_axis_radii"] = av[m["ax"]]
    em = {"nomap": None, "empty": {}, "iou": {"iou": "w"}, "collide": {"custom": "w"}}[m["em"]]
    return nm, em


def run_mapvalid(x):
    import pandas as pd
    from funtracks.import_export.csv._import import CSVTracksBuilder, tracks_from_df
    m = x["m"]
    df = pd.DataFrame({"t": [0, 1], "id": [1, 2], "parent_id": [-1, 1], "y": [0.0, 0.0], "x": [0.0, 1.0], "c": [5, 6],
                       "a": [1.0, 1.0], "b": [2.0, 2.0], "d": [3.0, 3.0]})
    nm, em = mv_maps(m)
    b = CSVTracksBuilder()
    b.read_header(df)
    b.node_name_map = dict(nm)
    b.edge_name_map = None if em is None else dict(em)
    try:
        b.validate_name_map(has_segmentation=m["seg"])
        x["err"] = "ok"
    except Exception as e:  # noqa: BLE001
        x["err"] = exc_name(e)
    x["keys"] = sorted(b.node_name_map)
    # end to end (no edge map argument in this entry point): the same node map through tracks_from_df
    x["e2e"] = ""
    three = m["pos"] == "absent" and m["leg"] in ("zyx", "zbad", "ybad3")
    if m["em"] == "nomap" and m["ax"] == "absent" and m["pos"] != "str" and not (three and m["seg"]):
        seg = np.zeros((2, 2, 2), dtype=np.uint16)
        seg[0, 0, 0], seg[1, 0, 1] = 1, 2
        try:
            tracks_from_df(df, segmentation=seg if m["seg"] else None, node_name_map=dict(nm))
            x["e2e"] = "ok"
        except Exception as e:  # noqa: BLE001
            x["e2e"] = exc_name(e)
    return x


def gen_import_geff(args):
    names = ["a", "b", "c"]
    for n in range(0, 4):
        for targets in itertools.permutations(names, n):
            for sources in itertools.permutations(names, n):
                for graph in range(args.get("graphs", 2)):
                    yield {"map": [[t, s] for t, s in zip(targets, sources)], "graph": graph}


GEFF_GRAPHS = [
    # (node id, time, y, x), edges  - non-contiguous ids, a division, a skip edge
    ([(3, 0, 1.0, 2.0), (7, 1, 2.0, 3.0), (8, 1, 4.0, 5.0), (12, 2, 6.0, 7.0)], [(3, 7), (3, 8), (7, 12)]),
    ([(5, 0, 1.0, 1.0), (2, 2, 3.0, 3.0), (9, 1, 8.0, 8.0)], [(5, 2)]),
]
PROP_BASE = {"a": 100, "b": 200, "c": 300}       # value of property p on node n: PROP_BASE[p] + n


def run_import_geff(x):
    import shutil
    import tempfile
    from pathlib import Path
    import geff
    import networkx as nx
    from funtracks.import_export.import_from_geff import import_from_geff
    nodes, edges = GEFF_GRAPHS[x["graph"]]
    g = nx.DiGraph()
    for n, t, y, xx in nodes:
        g.add_node(n, t=t, y=y, x=xx, **{p: float(b + n) for p, b in PROP_BASE.items()})
    g.add_edges_from(edges)
    d = Path(tempfile.mkdtemp(prefix="vf_geff_"))
    try:
        geff.write(g, d / "s.zarr", axis_names=["t", "y", "x"], axis_types=["time", "space", "space"])
        nm = {"time": "t", "pos": ["y", "x"]}
        feats = {}
        for tgt, src in x["map"]:
            # the standard key is itself one of the property names, so that maps can chain / swap names
            nm[tgt] = src
            feats[tgt] = False
        tr = import_from_geff(d / "s.zarr", node_name_map=nm, node_features=feats or None)
        got = []
        for tgt, _ in x["map"]:
            carried = set()
            for n, _, _, _ in nodes:
                v = tr.graph.nodes[n].get(tgt)
                carried.add(next((p for p, b in PROP_BASE.items() if v is not None and float(v) == float(b + n)), "?"))
            got.append([tgt, carried.pop() if len(carried) == 1 else "?"])
        extra = [k for n in tr.graph.nodes for k in tr.graph.nodes[n] if k in PROP_BASE and k not in [t for t, _ in x["map"]]]
        x["got"] = got + [["extra", "?"]] * (1 if extra else 0)
        x["nodes_ok"] = sorted(tr.graph.nodes) == sorted(n for n, _, _, _ in nodes) and all(
            int(tr.graph.nodes[n]["time"]) == t and [float(v) for v in tr.graph.nodes[n]["pos"]] == [y, xx]
            for n, t, y, xx in nodes)
        x["edges_ok"] = sorted(tr.graph.edges) == sorted(edges)
    finally:
        shutil.rmtree(d, ignore_errors=True)
    return x


def gen_geff_edgemap(args):
    for tm in ("ok", "bad"):
        for cu in ("absent", "a"):
            for em in ("nomap", "empty", "ok", "bad", "collide", "custom"):
                for graph in range(2):
                    yield {"m": {"tm": tm, "cu": cu, "em": em}, "graph": graph}


def run_geff_edgemap(x):
    import shutil
    import tempfile
    from pathlib import Path
    import geff
    import networkx as nx
    from funtracks.import_export.import_from_geff import import_from_geff
    nodes, edges = GEFF_GRAPHS[x["graph"]]
    g = nx.DiGraph()
    for n, t, y, xx in nodes:
        g.add_node(n, t=t, y=y, x=xx, a=float(100 + n))
    for u, v in edges:
        g.add_edge(u, v, w=float(u * 100 + v) / 1000.0)
    m = x["m"]
    nm = {"time": "t" if m["tm"] == "ok" else "nocol", "pos": ["y", "x"]}
    feats = {}
    if m["cu"] == "a":
        nm["a"] = "a"
        feats["a"] = False
    em = {"nomap": None, "empty": {}, "ok": {"iou": "w"}, "bad": {"iou": "nocol"}, "collide": {"a": "w"},
          "custom": {"weight": "w"}}[m["em"]]
    ekey = {"ok": "iou", "custom": "weight", "collide": "a"}.get(m["em"])
    d = Path(tempfile.mkdtemp(prefix="vf_geffe_"))
    x["carried"], x["graph_ok"] = False, False
    try:
        geff.write(g, d / "s.zarr", axis_names=["t", "y", "x"], axis_types=["time", "space", "space"])
        kw = {}
        if em is not None:
            kw["edge_name_map"] = em
            if ekey:
                kw["edge_features"] = {ekey: False}
        try:
            tr = import_from_geff(d / "s.zarr", node_name_map=nm, node_features=feats or None, **kw)
            x["err"] = "ok"
        except Exception as e:  # noqa: BLE001
            x["err"] = exc_name(e)
            return x
        x["graph_ok"] = sorted(tr.graph.nodes) == sorted(n for n, _, _, _ in nodes) and sorted(tr.graph.edges) == sorted(edges) \
            and all(int(tr.graph.nodes[n]["time"]) == t and [float(v) for v in tr.graph.nodes[n]["pos"]] == [y, xx]
                    for n, t, y, xx in nodes)
        if ekey:
            x["carried"] = all(tr.graph.edges[u, v].get(ekey) is not None
                               and abs(float(tr.graph.edges[u, v][ekey]) - float(u * 100 + v) / 1000.0) < 1e-12 for u, v in edges)
    finally:
        shutil.rmtree(d, ignore_errors=True)
    return x


PARTS = {
    "geff_edgemap": (gen_geff_edgemap, run_geff_edgemap),
    "import_geff": (gen_import_geff, run_import_geff),
    "import_df": (gen_import, run_import),
    "mapvalid": (gen_mapvalid, run_mapvalid),
    "relabel": (gen_relabel, run_relabel),
    "namemap": (gen_namemap, run_namemap),
    "cand_points": (gen_cand_points, run_cand_points),
    "cand_seg": (gen_cand_seg, run_cand_seg),
    "labels_unique": (gen_labels_unique, run_labels_unique),
    "track_labels": (gen_track_labels, run_track_labels),
}


def work(a):
    part, items, out = a
    run = PARTS[part][1]
    n = 0
    with open(out, "w") as f:
        for x in items:
            try:
                r = run(x)
            except Exception as e:  # noqa: BLE001 - outcome is the observation
                r = dict(x)
                r["exc"] = exc_name(e)
                r["msg"] = str(e)[:200]
            r.setdefault("exc", "")
            f.write(json.dumps(r, separators=(",", ":")) + "\n")
            n += 1
    return n


def main():
    part, outdir, nsh = sys.argv[1], sys.argv[2], int(sys.argv[3])
    args = json.load(open(sys.argv[4]))
    os.makedirs(outdir, exist_ok=True)
    items = list(PARTS[part][0](args))
    jobs = [(part, items[s::nsh], os.path.join(outdir, f"io_{s:03d}.ndjson")) for s in range(nsh)]
    with Pool(min(nsh, os.cpu_count() or 1)) as p:
        res = p.map(work, jobs)
    print(json.dumps({"records": sum(res), "shards": nsh}))


if __name__ == "__main__":
    main()
