"""C14 / C15 / C16: from every catalogue state run the exporters, the save function and the
queries on the real tracks, and record (i) the projection before and after each read-only
operation, (ii) the projection of what is read back, (iii) what a subset export wrote.

usage: export_ops.py <cfg.json> <paths.json> <outdir> <nshards> <what: ro|rt|sub>
"""
from __future__ import annotations

import itertools
import json
import os
import shutil
import sys
import tempfile
import warnings
from multiprocessing import Pool
from pathlib import Path

import numpy as np

warnings.filterwarnings("ignore")
sys.path.insert(0, os.path.dirname(os.path.abspath(__file__)))
import core  # noqa: E402
import replay  # noqa: E402


def feat_digest(tr):
    """digest of the feature registry INCLUDING each feature's metadata (display names, value names, ...) and of
    the key roles - a projection (C16: 'the feature registry ... unchanged')"""
    import hashlib
    f = tr.features
    doc = {str(k): {str(a): repr(b) for a, b in sorted(dict(v).items(), key=lambda kv: str(kv[0]))} for k, v in f.items()}
    roles = [repr(f.time_key), repr(f.position_key), repr(f.tracklet_key), repr(f.lineage_key)]
    return hashlib.md5(json.dumps([doc, roles], sort_keys=True).encode()).hexdigest()[:16]


def scale_of(tr):
    return [core.rat(x) for x in tr.scale] if tr.scale is not None else []


def do_export(tr, fmt, d, node_ids=None):
    from funtracks.import_export import export_to_csv
    from funtracks.import_export.export_to_geff import export_to_geff
    from funtracks.import_export.internal_format import save_tracks
    if fmt == "csv":
        if tr.segmentation is not None and node_ids is not None:
            export_to_csv(tr, d / "t.csv", node_ids=node_ids, export_seg=True, seg_path=d / "t.tif")
        else:
            export_to_csv(tr, d / "t.csv", node_ids=node_ids)
    elif fmt in ("geff", "geff_na"):
        export_to_geff(tr, d / "g", node_ids=node_ids)
    elif fmt == "geff_ow":
        # the target directory already holds ANOTHER, larger export (more frames, wider frames, other labels);
        # overwrite=True must give what a fresh directory gives
        export_to_geff(decoy_tracks(tr), d / "g")
        export_to_geff(tr, d / "g", node_ids=node_ids, overwrite=True)
    elif fmt == "internal":
        save_tracks(tr, d / "s")


def decoy_tracks(tr):
    """tracks with the same kind of data as `tr` but two more frames, wider frames and labels 91.. filling every frame"""
    import networkx as nx
    from funtracks.data_model import SolutionTracks
    g = nx.DiGraph()
    if tr.segmentation is None:
        for k in range(4):
            g.add_node(91 + k, time=k, pos=[1.0] * (tr.ndim - 1))
        return SolutionTracks(g, ndim=tr.ndim)
    shape = list(tr.segmentation.shape)
    shape[0] += 2
    shape[-1] += 3
    seg = np.zeros(shape, dtype=tr.segmentation.dtype)
    for k in range(shape[0]):
        seg[k] = 91 + k
        g.add_node(91 + k, time=k)
    return SolutionTracks(g, segmentation=seg, scale=None if tr.scale is None else list(tr.scale))


def read_back(cfg, tr, fmt, d):
    """Import what was written, with the key mapping that corresponds to the export."""
    import pandas as pd
    from funtracks.import_export.csv._import import tracks_from_df
    from funtracks.import_export.import_from_geff import import_from_geff
    from funtracks.import_export.internal_format import load_tracks
    axes = ["z", "y", "x"] if tr.ndim == 4 else ["y", "x"]
    if fmt == "csv":
        df = pd.read_csv(d / "t.csv")
        return tracks_from_df(df, node_name_map={"time": "t", "pos": axes, "id": "id", "parent_id": "parent_id",
                                                 "track_id": "track_id"})
    if fmt in ("geff", "geff_na"):
        # (standard key -> name of the property in the store = the attribute name the tracks use)
        nm = {"time": tr.features.time_key, "pos": axes, "track_id": tr.features.tracklet_key,
              "lineage_id": tr.features.lineage_key}
        kw = {}
        if core.CUSTOM_KEY in tr.features and any(core.CUSTOM_KEY in a for _, a in tr.graph.nodes(data=True)):
            # a static feature that only some nodes carry is loaded, not recomputed
            nm[core.CUSTOM_KEY] = core.CUSTOM_KEY
            kw["node_features"] = {core.CUSTOM_KEY: False}
        if tr.segmentation is not None:
            kw.update({"segmentation_path": d / "g" / "segmentation"})
            if fmt == "geff":
                nm["area"] = "area"
                kw["node_features"] = dict(kw.get("node_features", {}), area=False)
            # ("geff_na": the name map omits the area, which is then recomputed - the positions are still LOADED)
            if tr.scale is not None:
                kw["scale"] = list(tr.scale)    # positions are in world units: the importer needs the scale
            if "iou" in tr.features and tr.graph.number_of_edges() > 0:
                kw["edge_name_map"] = {"iou": "iou"}
                kw["edge_features"] = {"iou": False}
        return import_from_geff(d / "g" / "tracks", node_name_map=nm, **kw)
    return load_tracks(d / "s", solution=True)


RO_OPS = ["export_csv", "export_csv_subset", "export_geff", "export_geff_subset", "save", "queries",
          "export_csv_display", "export_csv_display_subset"]


def run_ro(drv, op, d):
    tr = drv.tracks
    nodes = sorted(tr.graph.nodes)
    sel = set(nodes[-1:])
    if op == "export_csv":
        do_export(tr, "csv", d)
    elif op == "export_csv_subset":
        do_export(tr, "csv", d, node_ids=sel)
    elif op == "export_geff":
        do_export(tr, "geff", d)
    elif op == "export_geff_subset":
        do_export(tr, "geff", d, node_ids=sel)
    elif op in ("export_csv_display", "export_csv_display_subset"):
        from funtracks.import_export import export_to_csv
        export_to_csv(tr, d / "t.csv", node_ids=sel if op.endswith("subset") else None, use_display_names=True)
    elif op == "save":
        do_export(tr, "internal", d)
    elif op == "queries":
        for i in range(0, int(tr.track_annotator.max_tracklet_id) + 3):
            for t in range(-1, drv.cfg.T + 1):
                tr.get_track_neighbors(i, t)
                tr.has_track_id_at_time(i, t)
        tr.get_next_track_id(); tr.get_next_lineage_id()
        for n in nodes:
            tr.get_pixels(n); tr.get_time(n); tr.get_track_id(n); tr.get_lineage_id(n); tr.get_position(n)
            tr.predecessors(n); tr.successors(n)
        if nodes:
            tr.get_positions(nodes, incl_time=True); tr.get_times(nodes)
        tr.nodes(); tr.edges(); tr.in_degree(); tr.out_degree(); tr.get_available_features()


def records_for(cfg, path, what):
    out = []
    base = Path(tempfile.mkdtemp(prefix="vf_exp_"))
    try:
        if what == "ro":
            for k, op in enumerate(RO_OPS):
                drv = replay.reach(cfg, path)
                if drv.tracks.graph.number_of_nodes() == 0 and op.endswith("subset"):
                    continue
                pre, spre = drv.project(), scale_of(drv.tracks)
                rec = {"kind": "ro", "op": op, "path": path, "pre": pre, "scale_pre": spre, "exc": "",
                       "fpre": feat_digest(drv.tracks)}
                try:
                    (base / f"ro{k}").mkdir()
                    run_ro(drv, op, base / f"ro{k}")
                except Exception as e:  # noqa: BLE001
                    rec["exc"] = type(e).__name__ + ": " + str(e)[:150]
                rec["post"], rec["scale_post"] = drv.project(), scale_of(drv.tracks)
                rec["fpost"] = feat_digest(drv.tracks)
                out.append(rec)
        elif what == "rt":
            for k, fmt in enumerate(cfg.formats or ["csv", "geff", "internal"]):
                drv = replay.reach(cfg, path)
                if drv.tracks.graph.number_of_nodes() == 0:
                    continue
                pre = drv.project()
                rec = {"kind": "rt", "fmt": fmt, "path": path, "pre": pre, "scale_pre": scale_of(drv.tracks), "exc": ""}
                try:
                    d = base / f"rt{k}"
                    d.mkdir()
                    do_export(drv.tracks, fmt, d)
                    t2 = read_back(cfg, drv.tracks, fmt, d)
                    rec["rt"] = core.project(t2, cfg, nshift=drv.nshift)
                    rec["scale_rt"] = scale_of(t2)
                except Exception as e:  # noqa: BLE001
                    rec["exc"] = type(e).__name__ + ": " + str(e)[:150]
                    rec["rt"], rec["scale_rt"] = pre, []
                out.append(rec)
        elif what == "sub":
            drv0 = replay.reach(cfg, path)
            nodes = sorted(drv0.tracks.graph.nodes)
            k = 0
            for r in range(0, len(nodes) + 1):
                for sel in itertools.combinations(nodes, r):
                    for fmt in ("csv", "geff", "geff_ow"):
                        if fmt == "geff_ow" and (r not in (0, 1, len(nodes)) or sel != tuple(nodes[-r:] if r else ())):
                            continue        # (one selection per size 0, 1, all)
                        k += 1
                        drv = replay.reach(cfg, path)
                        pre = drv.project()
                        rec = {"kind": "sub", "fmt": fmt, "path": path, "pre": pre,
                               "sel": [n + drv.nshift for n in sel], "exc": "",
                               "out_nodes": [], "out_edges": [], "out_seg": [], "dangling": 0}
                        try:
                            d = base / f"sub{k}"
                            d.mkdir()
                            do_export(drv.tracks, fmt, d, node_ids=set(sel))
                            read_subset(cfg, drv.tracks, fmt, d, rec)
                            if fmt == "csv" and drv.shift:
                                # the tif is labelled by REAL track ids (= model id - shift)
                                rec["out_seg"] = [v + drv.shift if v else 0 for v in rec["out_seg"]]
                            rec["out_nodes"] = [n + drv.nshift for n in rec["out_nodes"]]
                            rec["out_edges"] = [[u + drv.nshift, v + drv.nshift] for u, v in rec["out_edges"]]
                        except Exception as e:  # noqa: BLE001
                            rec["exc"] = type(e).__name__ + ": " + str(e)[:150]
                        out.append(rec)
    finally:
        shutil.rmtree(base, ignore_errors=True)
    return out


def read_subset(cfg, tr, fmt, d, rec):
    """What the subset export wrote, read with independent readers (pandas / zarr / geff)."""
    if fmt == "csv":
        import pandas as pd
        df = pd.read_csv(d / "t.csv")
        ids = [int(x) for x in df["id"]]
        rec["out_nodes"] = ids
        edges = []
        for i, p in zip(df["id"], df["parent_id"]):
            if not pd.isna(p):
                edges.append([int(p), int(i)])
        rec["out_edges"] = edges
        if (d / "t.tif").exists():
            import tifffile
            arr = np.asarray(tifffile.imread(d / "t.tif"))
            if isinstance(cfg.embed, dict):
                sub = core.sub_array(arr, cfg)
                rec["dangling"] = int(np.count_nonzero(arr)) - int(np.count_nonzero(sub))
                arr = sub
            elif cfg.embed:
                sub = arr[..., cfg.embed[1]]
                rec["dangling"] = int(np.count_nonzero(arr)) - int(np.count_nonzero(sub))
                arr = sub
            rec["out_seg"] = [int(x) for x in arr.reshape(-1)]
    else:
        import geff
        import zarr
        g, _ = geff.read(d / "g" / "tracks", backend="networkx")
        rec["out_nodes"] = sorted(int(n) for n in g.nodes)
        rec["out_edges"] = [[int(u), int(v)] for u, v in g.edges]
        if tr.segmentation is not None:
            arr = np.asarray(zarr.open(str(d / "g" / "segmentation"), mode="r")[:])
            if arr.shape != tuple(tr.segmentation.shape):
                # not the array of these tracks at all
                rec["dangling"] = -1
                rec["out_seg"] = []
                return
            if isinstance(cfg.embed, dict):
                sub = core.sub_array(arr, cfg)
                rec["dangling"] = int(np.count_nonzero(arr)) - int(np.count_nonzero(sub))
                arr = sub
            elif cfg.embed:
                sub = arr[..., cfg.embed[1]]
                rec["dangling"] = int(np.count_nonzero(arr)) - int(np.count_nonzero(sub))
                arr = sub
            rec["out_seg"] = [int(x) for x in arr.reshape(-1)]


def work(a):
    cfgd, paths, out, what = a
    cfg = core.Cfg.from_json(cfgd)
    n = 0
    seen = set()
    with open(out, "w") as f:
        for path in paths:
            drv = replay.reach(cfg, path)
            key = json.dumps(drv.project(), sort_keys=True)
            if key in seen:
                continue
            seen.add(key)
            for rec in records_for(cfg, path, what):
                f.write(json.dumps(rec, separators=(",", ":")) + "\n")
                n += 1
    return n, len(seen)


def main():
    cfgd = json.load(open(sys.argv[1]))
    paths = json.load(open(sys.argv[2]))
    outdir, nsh, what = sys.argv[3], int(sys.argv[4]), sys.argv[5]
    os.makedirs(outdir, exist_ok=True)
    jobs = [(cfgd, paths[s::nsh], os.path.join(outdir, f"exp_{s:03d}.ndjson"), what) for s in range(nsh)]
    with Pool(min(nsh, os.cpu_count() or 1)) as p:
        res = p.map(work, jobs)
    print(json.dumps({"records": sum(r[0] for r in res), "states": sum(r[1] for r in res), "shards": nsh}))


if __name__ == "__main__":
    main()
