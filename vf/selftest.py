"""Self-tests of the machinery (not registered checks): demonstrate that the trace specifications
are BOUND to the recorded data - corrupting one recorded field, or dropping one event of a session,
makes TLC reject - and that an uncorrupted sample is accepted.   python3 -m vf.selftest"""
from __future__ import annotations

import copy
import json
import os
import shutil
import sys
import tempfile

from . import coreflow as cf
from . import hist_check, tlc


def tlc_on(records, module, consts, scratch, tag):
    f = os.path.join(scratch, f"{tag}.ndjson")
    with open(f, "w") as fh:
        for r in records:
            fh.write(json.dumps(r, separators=(",", ":")) + "\n")
    cfgp = os.path.join(scratch, f"{tag}.cfg")
    open(cfgp, "w").write(tlc.cfg_text(constants=consts, invariants=["Inv"], post="Post"))
    out, dt, rc = tlc.run_tlc(module, cfgp, scratch, workers=1, env={"TRACE_FILE": f}, tag=tag)
    assert tlc.completed_ok(out), out[-2000:]
    fails = sorted({t.split('"')[3] for t in tlc.tuples(out, "FAIL")})
    drift = len(list(tlc.tuples(out, "DRIFT")))
    return fails, drift


def main():
    scratch = tempfile.mkdtemp(prefix="vf_selftest_")
    ok = True
    try:
        suite = cf.SUITES["struct3"]
        paths = [[], [[1, 1, 0, 1, 0], [1, 2, 1, 1, 0], [1, 3, 1, 2, 0], [2, 1, 3, 0, 0]]]
        shards, info = cf.replay(suite, paths, scratch, 1)
        recs = [json.loads(l) for l in open(shards[0])]
        consts = dict(suite["tla"])
        props = ["C01", "C03", "C04", "C05", "C06", "C11", "C20"]
        consts.update({"Fixes": tlc.tla_set(cf.ALL_FIXES), "Check": tlc.tla_set(props + ["REF"])})
        base = tlc_on(recs, "TraceStep.tla", consts, scratch, "base")
        print(f"uncorrupted sample ({len(recs)} records): fails={base[0]} drift={base[1]}")
        ok &= base == ([], 0)
        acc = next(r for r in recs if r["ok"] and r["c"][0] == 3 and r["post"]["E"] != r["pre"]["E"])   # an accepted delete-edge
        ref = next(r for r in recs if not r["ok"] and r["c"][0] == 2)
        cases = []
        c = copy.deepcopy(acc); c["post"]["lid"] = [x + 1 if x else x for x in c["post"]["lid"][:1]] + c["post"]["lid"][1:]
        cases.append(("one lineage id of the post-state changed", c, {"C05", "C06"}))
        c = copy.deepcopy(acc); c["emit"] = []
        cases.append(("emission of an accepted call dropped", c, {"C20"}))
        c = copy.deepcopy(acc); c["u_post"]["E"] = c["post"]["E"]
        cases.append(("undo state = post state (edge not restored)", c, {"C01"}))
        c = copy.deepcopy(ref); c["post"]["ulen"] += 1
        cases.append(("history length changed by a refused call", c, {"C11"}))
        c = copy.deepcopy(acc); c["post"]["t2n"] = c["post"]["t2n"][:-1]
        cases.append(("one lookup entry of the post-state removed", c, {"C06"}))
        c = copy.deepcopy(acc); c["post"]["maxT"] += 1
        cases.append(("benign: a larger fresh-id counter (no property broken)", c, set()))
        for name, rec, expect in cases:
            fails, drift = tlc_on([rec], "TraceStep.tla", consts, scratch, "c")
            good = expect <= set(fails) and (drift == 1) and (bool(expect) or not fails)
            print(f"corruption '{name}': fails={fails} drift={drift} -> {'as expected' if good else 'UNEXPECTED'}")
            ok &= good
        # sessions: drop one event
        spec = {"mode": "exhaustive", "alphabet": hist_check.alphabets()["HC_A"][:3], "length": 4}
        sh, _ = hist_check.sessions(suite, spec, scratch, "st")
        ses = [json.loads(l) for f in sh for l in open(f)]
        s0 = next(s for s in ses if [x["c"][0] for x in s["steps"]][:4] == [1, 1, 7, 7] and s["steps"][1]["ok"])
        hc = dict(suite["tla"]); hc.update({"Fixes": tlc.tla_set(cf.ALL_FIXES), "Check": tlc.tla_set(["C02", "REF"])})
        print("session", [x["c"] for x in s0["steps"]], "->", tlc_on([s0], "TraceHist.tla", hc, scratch, "s0"))
        s1 = copy.deepcopy(s0); del s1["steps"][2]                      # one undo event missing
        r = tlc_on([s1], "TraceHist.tla", hc, scratch, "s1")
        print("session with one undo event dropped ->", r)
        ok &= tlc_on([s0], "TraceHist.tla", hc, scratch, "s0")[0] == [] and r[0] == ["C02"]
    finally:
        shutil.rmtree(scratch, ignore_errors=True)
    print("selftest", "PASSED" if ok else "FAILED")
    return 0 if ok else 1


if __name__ == "__main__":
    sys.exit(main())
