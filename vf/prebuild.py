"""Precompute what depends only on /verif/spec: design-level TLC runs and catalogues
(cached under /verif/.cache, keyed by the spec modules' content)."""
import shutil
import sys
import tempfile
import time

from . import coreflow as cf
from . import core_check


def main():
    tier = sys.argv[1] if len(sys.argv) > 1 else "quick"
    suites = sorted({s for plan in core_check.PLAN.values() for s in plan[tier]})
    scratch = tempfile.mkdtemp(prefix="vf_prebuild_")
    logs = []
    try:
        for name in suites:
            t0 = time.time()
            suite = cf.SUITES[name]
            d = cf.design_run(suite, tier, scratch, "all", logs.append)
            paths, info = cf.catalogue(suite, tier, scratch, 0, logs.append)
            print(f"prebuilt {name}: design states={d['states']} catalogue={info['catalogue_states']} "
                  f"({time.time() - t0:.0f}s, cached={d['from_cache']}/{info['from_cache']})", flush=True)
    finally:
        shutil.rmtree(scratch, ignore_errors=True)


if __name__ == "__main__":
    main()
