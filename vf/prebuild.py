"""Precompute what depends only on /verif/spec: design-level TLC runs and catalogues
(cached under /verif/.cache, keyed by the spec modules' content). Suites run side by side."""
import shutil
import sys
import tempfile
import time
from concurrent.futures import ThreadPoolExecutor

from . import coreflow as cf
from . import core_check, export_check


def one(args):
    name, suite, tier, scratch = args
    t0 = time.time()
    logs = []
    d = cf.design_run(suite, tier, scratch, "all", logs.append)
    paths, info = cf.catalogue(dict(suite, sample={}), tier, scratch, 0, logs.append)
    return (f"prebuilt {name}: design states={d['states']} catalogue={info['catalogue_states']} "
            f"({time.time() - t0:.0f}s, cached={d['from_cache']}/{info['from_cache']})")


def main():
    tier = sys.argv[1] if len(sys.argv) > 1 else "quick"
    jobs = {}
    for plan in core_check.PLAN.values():
        for s in plan[tier]:
            jobs[s] = cf.SUITES[s]
    for name, (suite, _, _) in export_check.suites().items():
        jobs[name] = suite
    scratch = tempfile.mkdtemp(prefix="vf_prebuild_")
    cf.NCPU = 4          # four suites side by side, four TLC workers each
    try:
        import os
        todo = []
        for k, (name, suite) in enumerate(sorted(jobs.items())):
            sc = os.path.join(scratch, name)
            os.makedirs(sc)
            todo.append((name, suite, tier, sc))
        with ThreadPoolExecutor(max_workers=4) as ex:
            for line in ex.map(one, todo):
                print(line, flush=True)
    finally:
        shutil.rmtree(scratch, ignore_errors=True)


if __name__ == "__main__":
    main()
