"""Check flow for the pipeline properties (C12..C19): each property has one or more PARTS.
A part = (a) a TLA+ specification of the function as a state machine whose Init ranges over all
small inputs and whose property is checked by TLC at design level; (b) the real function run on
the same inputs (enumerated by TLC where the space is structured, by the harness where it is a
plain product space - TLC then checks the records are in the universe and counts them);
(c) a trace module in which TLC evaluates the property on the REAL outputs and compares them
with the model's output (refinement)."""
from __future__ import annotations

import glob
import json
import os
import re
import shutil
import subprocess
import tempfile
import time
from concurrent.futures import ThreadPoolExecutor

from . import coreflow as cf
from . import evidence, tlc
from .tlc import MachineryError

ROOT = cf.ROOT


def run_design(part, tier, scratch, log):
    d = part.get("design")
    if not d:
        return None
    consts = dict(d["consts"][tier] if tier in d["consts"] else d["consts"])

    def compute():
        cfgp = os.path.join(scratch, f"design_{part['name']}.cfg")
        open(cfgp, "w").write(tlc.cfg_text(spec=d.get("spec", "Spec"), constants=consts,
                                            invariants=d.get("invariants", []), constraint=d.get("constraint")))
        out, dt, rc = tlc.run_tlc(d["module"], cfgp, scratch, workers=d.get("workers", cf.NCPU), tag=f"d_{part['name']}")
        st = tlc.stats(out)
        if not tlc.completed_ok(out) or st is None:
            log(out[-3000:])
            raise MachineryError(f"design-level model check failed for part {part['name']}")
        res = {"part": part["name"], "module": d["module"], "constants": consts, "states": st["distinct"],
               "transitions": st["generated"], "wall_s": round(dt, 1)}
        if d.get("emit"):
            res["inputs"] = [d["emit_parse"](t) for t in tlc.tuples(out, d["emit"])]
        return res
    return cf.cached("iodesign", [part["name"], d["module"], consts, d.get("invariants", [])], compute, module=d["module"])


def run_real(part, tier, seed, scratch, design):
    args = dict(part["args"][tier] if tier in part.get("args", {}) else part.get("args", {}))
    args["seed"] = seed
    args["tier"] = tier
    if design and "inputs" in design:
        args["inputs"] = design["inputs"]
    ap = os.path.join(scratch, f"args_{part['name']}.json")
    json.dump(args, open(ap, "w"))
    outdir = os.path.join(scratch, f"io_{part['name']}")
    t0 = time.time()
    p = subprocess.run([cf.PY, os.path.join(ROOT, "harness", "io_drivers.py"), part["driver"], outdir,
                        str(cf.NCPU), ap], stdout=subprocess.PIPE, stderr=subprocess.PIPE, text=True,
                       env=cf.harness_env())
    if p.returncode != 0:
        raise MachineryError(f"io driver {part['driver']} failed:\n" + p.stderr[-3000:])
    info = json.loads(p.stdout.strip().splitlines()[-1])
    info["wall_s"] = round(time.time() - t0, 1)
    return sorted(glob.glob(os.path.join(outdir, "*.ndjson"))), info


def run_trace(part, tier, shards, scratch, log, prop):
    t = part["trace"]
    consts = dict(t["consts"][tier] if tier in t["consts"] else t["consts"])
    cfgp = os.path.join(scratch, f"trace_{part['name']}.cfg")
    open(cfgp, "w").write(tlc.cfg_text(spec="TSpec", constants=consts, invariants=["Report"], post="Post"))

    def one(sh):
        if os.path.getsize(sh) == 0:
            return sh, ""
        out, dt, rc = tlc.run_tlc(t["module"], cfgp, scratch, workers=1, env={"TRACE_FILE": sh},
                                  tag=part["name"] + os.path.basename(sh))
        if not tlc.completed_ok(out):
            log(out[-3000:])
            raise MachineryError(f"{t['module']} failed on {sh}")
        return sh, out
    res = {"fails": [], "known": [], "drift": [], "counts": [0, 0]}
    with ThreadPoolExecutor(max_workers=cf.NCPU) as ex:
        for sh, out in ex.map(one, shards):
            for tt in tlc.tuples(out, "FAIL"):
                nums = [int(v) for v in re.findall(r"-?\d+", tt.split(f'"{prop}"')[1])]
                res["fails"].append((sh, nums[0]))
            for tt in tlc.tuples(out, "KNOWN"):
                sig = tt.split('"')[3]
                nums = [int(v) for v in re.findall(r"-?\d+", tt.split(f'"{sig}"')[1])]
                res["known"].append((sh, nums[0], sig))
            for tt in tlc.tuples(out, "DRIFT"):
                nums = [int(v) for v in re.findall(r"-?\d+", tt)]
                res["drift"].append((sh, nums[0]))
            for tt in tlc.tuples(out, "COUNTS"):
                nums = [int(v) for v in re.findall(r"-?\d+", tt)]
                res["counts"][0] += nums[0]
                res["counts"][1] += nums[1]
    return res


def run(prop, parts, tier, seed, note_rule, assumptions):
    t0 = time.time()
    scratch = tempfile.mkdtemp(prefix=f"vf_{prop}_")
    logs = []
    log = logs.append
    design_info, real_info, viols, known, drift, samples = [], [], [], {}, [], []
    total = nontriv = 0
    try:
        for part in parts:
            if tier not in part.get("tiers", ("quick", "thorough")):
                continue
            d = run_design(part, tier, scratch, log)
            if d:
                design_info.append({k: v for k, v in d.items() if k != "inputs"})
            shards, info = run_real(part, tier, seed, scratch, d)
            info["part"] = part["name"]
            res = run_trace(part, tier, shards, scratch, log, prop)
            if res["counts"][0] != info["records"]:
                raise MachineryError(f"part {part['name']}: TLC saw {res['counts'][0]} records, harness wrote {info['records']}")
            info["drift"] = len(res["drift"])
            real_info.append(info)
            total += res["counts"][0]
            nontriv += res["counts"][1]
            for sh, idx in res["fails"]:
                viols.append((part["name"], cf.get_record(sh, idx)))
            for sh, idx, sig in res["known"]:
                known.setdefault(sig, []).append((part["name"], sh, idx))
            for sh, idx in res["drift"][:10]:
                drift.append({"part": part["name"], "record": cf.get_record(sh, idx)})
            for k in (1, 37):
                r = cf.get_record(shards[0], k) if shards else None
                if r:
                    samples.append({"part": part["name"], "record": r})
    except MachineryError as e:
        print(f"MACHINERY-ERROR property={prop}: {e}")
        for l in logs[-2:]:
            print(l)
        shutil.rmtree(scratch, ignore_errors=True)
        return 2
    # known findings: a signature listed as status=known in known_findings.json is reported once
    listed = {k["signature"]: k for k in evidence.known_findings()
              if k.get("status") == "known" and k.get("property") == prop and "signature" in k}
    n_viol = 0
    rdir = os.path.join(cf.out_dir("replays"), prop)
    shutil.rmtree(rdir, ignore_errors=True)
    for sig, occ in sorted(known.items()):
        if sig in listed:
            print(f"KNOWN-FINDING: property={prop} {listed[sig]['what']} (signature {sig}, {len(occ)} records)")
        else:
            for pname, sh, idx in occ:
                viols.append((pname, cf.get_record(sh, idx)))
    for pname, rec in viols:
        n_viol += 1
        if n_viol <= 20:
            os.makedirs(rdir, exist_ok=True)
            path = os.path.join(rdir, f"{pname}_{n_viol}.json")
            json.dump({"property": prop, "part": pname, "record": rec}, open(path, "w"))
            print(f"VIOLATION property={prop} replay={path}")
    for d in drift[:5]:
        print(f"DRIFT property={prop} part={d['part']} record={json.dumps(d['record'])[:300]}")
    cov = {
        "states": sum(d["states"] for d in design_info) or 1,
        "transitions": sum(d["transitions"] for d in design_info) or 1,
        "traces_validated_against_impl": total,
        "evaluations": total, "distinct_nontrivial": nontriv, "rule": note_rule,
        "samples": samples[:6], "exhaustive": True,
        "design_level": design_info, "real_runs": real_info,
        "known_findings": {sig: len(o) for sig, o in known.items() if sig in listed},
        "drift_count": sum(i["drift"] for i in real_info), "drift": drift[:5],
    }
    evidence.write(prop, tier, seed, "model_checking", cov, time.time() - t0, n_viol, assumptions)
    shutil.rmtree(scratch, ignore_errors=True)
    print(f"property={prop} tier={tier} records={total} nontrivial={nontriv} violations={n_viol} "
          f"known={sum(len(o) for s, o in known.items() if s in listed)} drift={cov['drift_count']} wall={time.time() - t0:.0f}s")
    return 1 if n_viol else 0
