"""Generates /verif/MANIFEST.json from one table (run: python3 -m vf.gen_manifest)."""
import json
import os

ROOT = os.path.dirname(os.path.dirname(os.path.abspath(__file__)))
BASELINE = json.load(open("/root/.vp/BASELINE.json"))["cmd"].replace("--junitxml=<file>", "").strip()

CORE_NOTE = ("Trusted base: the projection harness/core.py (reads public API only), TLC, the universe bounds of the "
             "suites (N<=5 nodes, T<=4 frames, catalogue depth), ids identified up to order-preserving renaming in the "
             "catalogue. The design-level result transfers to the code through the per-record refinement check; "
             "a refinement mismatch is reported as DRIFT and lowers the claim to the real-state evaluation alone.")

CLAIMED = {
    "C01": ("model_checking", "TLA+ model (Core/Props/MC) checked by TLC; catalogue replay into the real code; TLC TraceStep evaluates "
            "ObsEq(pre, after undo) and ObsEq(post, after redo) on recorded real states",
            "Every accepted call of the alphabet from every catalogue state is followed by undo() and redo() on the real object; "
            "TLC compares the projected states (nodes, edges, registered features) and checks refinement against the model's InvGroup."),
    "C03": ("model_checking", "TLC exhaustive model check + catalogue replay + TLC trace evaluation of Forest / refusal / removable-edge clauses on real states",
            "All (state, call) pairs of the bounded universe incl. all ordered node pairs as edge endpoints, every track id, force on/off."),
    "C04": ("model_checking", "TLC exhaustive model check + catalogue replay + TLC trace evaluation of TidOK and the frame clause on real states",
            "Track-id partition recomputed in TLA+ (segments = components after cutting division edges) on every recorded real post / undo / redo state; construction (call 12: direct / from_tracks / FeatureDict, ids kept or removed) is a modelled call whose result must manage and satisfy the ids."),
    "C05": ("model_checking", "TLC exhaustive model check + catalogue replay + TLC trace evaluation of LidOK and the frame clause on real states",
            "Lineage partition recomputed in TLA+ (weak components) on every recorded real post / undo / redo state, after every modelled construction call, and after construction by import with a consistent / inconsistent source lineage column (Import.tla: LidsOK)."),
    "C06": ("model_checking", "TLC exhaustive model check + catalogue replay + TLC trace evaluation of LookupOK and of the recorded query answers",
            "Lookups (as lists, duplicates visible), get_track_neighbors / has_track_id_at_time for every id and time, next ids; reference answers are graph scans computed in TLA+."),
    "C02": ("model_checking", "TLC model check of the two-stack history against a ghost linear timeline (MCHist.tla); all call sequences up to a length bound "
            "replayed into the real code; TLC (TraceHist.tla) rebuilds the timeline from the recorded real states and checks every step, plus lockstep refinement",
            "All sequences over {6-7 edits incl. nesting/forced ones, undo, redo} up to the length bound exhaustively, three alphabets; longer seeded random sessions."),
    "C07": ("model_checking", "TLC model check with segmentation + catalogue replay + TLC trace evaluation of SegOK, the painted-array clauses, the pixel query and bit-exact undo on real arrays",
            "Strokes with new / existing / background value over none, part or all of one or several nodes, all pixel subsets of a frame, 2D+t and 3D+t; whole array projected."),
    "C08": ("model_checking", "TLC model check with segmentation + catalogue replay + TLC recomputes area and scaled centroid from the recorded real array as exact rationals",
            "Area = count x voxel and centroid x scale recomputed IN TLA+ from the real label array and compared with the stored attribute values (isotropic, anisotropic, no scale)."),
    "C09": ("model_checking", "TLC model check with segmentation + catalogue replay + TLC recomputes |A and B| / |A or B| from the recorded real array as exact rationals",
            "IoU recomputed in TLA+ for every edge (incl. frame-skipping) after every call, undo, redo; incremental path."),
    "C10": ("model_checking", "TLA+ model of enable_features/disable_features (activation table, registry, bulk recomputation) checked by TLC; catalogue replay with "
            "enable/disable calls interleaved with edits; TLC trace evaluation of reference values, registry, disabled-feature frame clause, KeyError clause and protected keys",
            "Every subset mask of the available keys (plus an unknown key) is fired from every catalogue state of suites that interleave switching with edits; shape features through from-scratch digests."),
    "C11": ("model_checking", "TLC exhaustive model check + catalogue replay + TLC trace evaluation of FullEq(pre, post) and empty emissions on refused calls",
            "The whole alphabet (enabled or not) is fired from every catalogue state, so every refused (state, call) pair of the universe is covered, incl. strokes over two time points, custom attribute names, node id 0; lookup dict keys are compared too."),
    "C20": ("model_checking", "TLC exhaustive model check + catalogue replay + TLC trace evaluation of the recorded refresh emissions",
            "Emissions recorded through the public psygnal refresh signal for every call (accepted, refused, nested, forced)."),
}

IO_NOTE = ("Trusted base: the IO drivers harness/io_drivers.py / harness/export_ops.py (they only run the function and serialise its "
           "result), TLC, independent readers (pandas, zarr, geff.read), the bounds of the input universes stated in the evidence file.")
CLAIMED.update({
    "C12": ("model_checking", "TLA+ model of the import builder pipeline (Import.tla: validate name map -> load -> validate graph -> construct) checked by TLC over all small "
            "tables; the real tracks_from_df run on the same tables; TLC (TraceImport.tla) evaluates faithful-or-ValueError on the real results",
            "All node tables up to 2 (thorough 3) rows incl. every malformed variant, integer and string ids, three parent-none encodings, renamed columns, mixed-dtype position columns, source track / lineage columns; all 53,760 name maps of the MapValid.tla universe through validate_name_map and tracks_from_df."),
    "C13": ("model_checking", "TLA+ model of the relabelling double loop (Relabel.tla) checked by TLC; real relabel_segmentation / tracks_from_df(df, segmentation) on all "
            "arrays x injective assignments; TLC compares every output pixel and the shifted graph with the reference",
            "Exhaustive over 2-frame arrays with labels 0..3 and all injective (time, seg id) -> node id assignments over ids 0..3."),
    "C14": ("model_checking", "catalogue states of the editing model exported by the real exporters and re-imported; TLC (TraceExport.tla) compares the projections "
            "per format (csv / geff / internal)",
            "States come from the TLA+ catalogue (divisions, skip edges, non-contiguous ids after edits), 2D/3D, with/without array, single-key and per-axis positions."),
    "C15": ("model_checking", "catalogue states x EVERY node subset exported by the real CSV / GEFF exporters; TLC recomputes the ancestor closure, induced edges and "
            "masked array from the pre-state",
            "All subsets of the nodes of each catalogue state; GEFF arrays embedded so that masks straddle the exporter's 64-voxel chunks; 8-bit arrays with track ids beyond 8 bits; overwrite=True into a directory that holds a larger export."),
    "C16": ("model_checking", "catalogue states x every read-only operation on the real object; TLC checks FullEq(before, after) incl. scale, registry, lookups, history",
            "Full / subset CSV (raw and display-name headers) and GEFF export, save, and all queries, from catalogue states with scale None / given, per-axis positions, custom attribute names, objects constructed through from_tracks / with recomputed ids, with/without array; the registry is compared with all feature metadata."),
    "C17": ("model_checking", "TLA+ model of the 5-stage inference pipeline (NameMap.tla, difflib scores as a constant table) checked by TLC; real infer_node_name_map on all "
            "ordered column lists; TLC checks partition + exact-key clauses on the real maps and equality with the model's map",
            "All ordered lists of <= 3 (thorough 4) distinct names from a 22-name vocabulary x 2 feature tables x 2 required-key sets."),
    "C18": ("model_checking", "TLA+ model of the add_cand_edges frame loop (CandGraph.tla) checked by TLC; real compute_graph_from_points_list / compute_graph_from_seg; "
            "TLC recomputes nodes, near pairs in consecutive frames and IoU from the inputs",
            "Every non-empty subset of frames x 3 grid positions (all frame gaps; 5 frames x 2 positions), boundary distances; all 3-frame 1x3 label arrays, also along z with a z scale, 5-frame single-pixel arrays, 16- and 32-bit large labels."),
    "C19": ("model_checking", "TLA+ models of the ensure_unique_labels frame loop (Labels.tla) and of relabelling by track (TrackLabels.tla, TLC enumerates all solution forests); "
            "real functions on the same inputs; TLC evaluates the properties on the real outputs",
            "All label arrays of the universe (empty frames, repeated labels); all binary forests over 3 frames x 2 detections x 4 arrays."),
})

NOT_YET = {}


def main():
    checks = []
    for pid, (cat, tech, text) in sorted(CLAIMED.items()):
        checks.append({
            "property_id": pid,
            "quick_cmd": f"./check {pid} --tier quick",
            "thorough_cmd": f"./check {pid} --tier thorough",
            "evidence_file": f"/verif/evidence/{pid}.json",
            "replay_cmd_template": f"./check {pid} --replay {{path}}",
            "engine": "tlc-io" if pid in ("C12", "C13", "C17", "C18", "C19") else "tlc-core",
            "level_claimed": {"category": cat, "text": text, "design_ref": "DESIGN.md §6 " + pid},
            "level_note": IO_NOTE if pid in ("C12", "C13", "C14", "C15", "C16", "C17", "C18", "C19") else CORE_NOTE,
            "technique": tech,
        })
    m = {
        "version": 1,
        "setup_cmd": "./setup.sh",
        "hooks": {"guard": "FUNTRACKS_VERIF", "enable": "no hooks are needed: the library is sequential and the abstract state is "
                  "exposed by public attributes (guard name reserved)",
                  "baseline_off_cmd": BASELINE, "source_commits": [], "add_only": True},
        "engines": [{"name": "tlc-core", "path": "/verif/spec (Core.tla, Props.tla, MC.tla, TraceStep.tla) + /verif/harness + /verif/vf",
                     "serves_properties": sorted(set(CLAIMED) - {"C12", "C13", "C17", "C18", "C19"}), "kind_free_text":
                     "explicit TLA+ specification checked by TLC; conformance by catalogue replay (spec->code) and "
                     "TLC trace checking of recorded real transitions (code->spec)"},
                    {"name": "tlc-io", "path": "/verif/spec (Import, Relabel, NameMap, CandGraph, Labels, TrackLabels + Trace*.tla) + /verif/harness/io_drivers.py",
                     "serves_properties": ["C12", "C13", "C17", "C18", "C19"], "kind_free_text":
                     "pipeline functions specified as TLA+ state machines over all small inputs; TLC checks the design and evaluates the "
                     "property on outputs recorded from the real function"}],
        "checks": checks,
        "not_applicable": [{"property_id": k, "reason": v} for k, v in NOT_YET.items()
                           if k not in CLAIMED and not k.startswith("_")],
        "notes": "See DESIGN.md. Genuine defects repaired in /repo are listed in known_findings.json as fixed: entries.",
    }
    json.dump(m, open(os.path.join(ROOT, "MANIFEST.json"), "w"), indent=1)


if __name__ == "__main__":
    main()
