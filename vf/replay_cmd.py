"""`./check Cxx --replay <path>`: re-execute one recorded violation on the CURRENT tree and let TLC
re-evaluate the property on the fresh record. Exit 1 + VIOLATION line if it still fails, 0 otherwise."""
from __future__ import annotations

import json
import os
import shutil
import subprocess
import sys
import tempfile

from . import coreflow as cf
from . import tlc

ROOT = cf.ROOT

PY_REGEN = r'''
import json, sys, os
sys.path.insert(0, os.path.join(%(root)r, "harness"))
kind = %(kind)r
rep = json.load(open(%(path)r))
out = %(out)r
if kind == "step":
    import core, replay
    cfg = core.Cfg.from_json(rep["cfg"])
    rec = replay.record(cfg, rep["record"]["path"], rep["record"]["c"])
elif kind == "session":
    import core, sessions
    cfg = core.Cfg.from_json(rep["cfg"])
    rec = sessions.run_session(cfg, [s["c"] for s in rep["session"]["steps"]], 0)
elif kind == "export":
    import core, export_ops
    cfg = core.Cfg.from_json(rep["cfg"])
    r0 = rep["record"]
    what = {"ro": "ro", "rt": "rt", "sub": "sub"}[r0["kind"]]
    rec = None
    for r in export_ops.records_for(cfg, r0["path"], what):
        if (r.get("op"), r.get("fmt"), r.get("sel")) == (r0.get("op"), r0.get("fmt"), r0.get("sel")):
            rec = r
elif kind == "io":
    import io_drivers
    x = {k: v for k, v in rep["record"].items() if k not in ("out", "exc", "msg", "nodes", "edges", "gnodes", "err")}
    if rep["driver"] in ("cand_points", "cand_seg", "relabel", "import_df"):
        x = {k: v for k, v in rep["record"].items() if k not in ("out", "exc", "msg", "gnodes", "err")}
        if rep["driver"] != "relabel":
            x.pop("nodes", None); x.pop("edges", None)
    try:
        rec = io_drivers.PARTS[rep["driver"]][1](x)
    except Exception as e:
        rec = dict(x); rec["exc"] = type(e).__name__
    rec.setdefault("exc", "")
json.dump(rec, open(out, "w"))
'''


def run(prop, path):
    rep = json.load(open(path))
    scratch = tempfile.mkdtemp(prefix=f"vf_replay_{prop}_")
    try:
        rec_file = os.path.join(scratch, "rec.ndjson")
        if "session" in rep:
            kind, module, suite = "session", "TraceHist.tla", cf.SUITES[rep["suite"]]
            rep["cfg"] = suite["cfg"]
        elif rep.get("record", {}).get("kind") in ("ro", "rt", "sub"):
            from . import export_check
            suite = export_check.suites()[rep["suite"]][0]
            kind, module = "export", "TraceExport.tla"
            rep["cfg"] = suite["cfg"]
        elif "part" in rep:
            from . import io_props
            part = [p for p in io_props.PROPS[prop][0] if p["name"] == rep["part"]][0]
            kind, module, suite = "io", part["trace"]["module"], None
            rep["driver"] = part["driver"]
        else:
            kind, module, suite = "step", "TraceStep.tla", cf.SUITES[rep["suite"]]
            rep["cfg"] = suite["cfg"]
        tmp_rep = os.path.join(scratch, "rep.json")
        json.dump(rep, open(tmp_rep, "w"))
        code = PY_REGEN % {"root": ROOT, "kind": kind, "path": tmp_rep, "out": rec_file}
        p = subprocess.run([cf.PY, "-c", code], env=cf.harness_env(), stdout=subprocess.PIPE, stderr=subprocess.PIPE, text=True)
        if p.returncode != 0:
            print("MACHINERY-ERROR replay harness failed:\n" + p.stderr[-2000:])
            return 2
        rec = json.load(open(rec_file))
        open(rec_file, "w").write(json.dumps(rec, separators=(",", ":")) + "\n")
        if kind == "io":
            consts = dict(part["trace"]["consts"].get("thorough", part["trace"]["consts"])
                          if "quick" in part["trace"]["consts"] else part["trace"]["consts"])
            cfg_text = tlc.cfg_text(spec="TSpec", constants=consts, invariants=["Report"], post="Post")
        else:
            consts = dict(suite["tla"])
            consts.update({"Fixes": tlc.tla_set(cf.ALL_FIXES), "Check": tlc.tla_set([prop, "REF"] if kind != "export" else [prop])})
            cfg_text = tlc.cfg_text(constants=consts, invariants=["Inv"], post="Post")
        cfgp = os.path.join(scratch, "t.cfg")
        open(cfgp, "w").write(cfg_text)
        out, dt, rc = tlc.run_tlc(module, cfgp, scratch, workers=1, env={"TRACE_FILE": rec_file}, tag="replay")
        if not tlc.completed_ok(out):
            print("MACHINERY-ERROR TLC failed on the replayed record\n" + out[-2000:])
            return 2
        fails = [t for t in tlc.tuples(out, "FAIL") if f'"{prop}"' in t]
        known = list(tlc.tuples(out, "KNOWN"))
        drift = list(tlc.tuples(out, "DRIFT"))
        if fails:
            print(f"VIOLATION property={prop} replay={path}")
            return 1
        print(f"replay: property {prop} holds on the current tree for this case"
              + (" (known finding signature)" if known else "") + (" (model drift)" if drift else ""))
        return 0
    finally:
        shutil.rmtree(scratch, ignore_errors=True)
