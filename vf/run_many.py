"""Run many seeded / benign changes against quick checks, a few at a time.

  python3 -m vf.run_many <list file> [parallel]
list file lines:  seeded|benign <id> <prop> [<prop> ...]
(intended for `vp run`: results are also written to $VERIF_SEED_RESULTS and merged with `seed_tool merge`)
"""
import subprocess
import sys
from concurrent.futures import ThreadPoolExecutor


def one(line):
    kind, mid, *props = line.split()
    cmd = [sys.executable, "-m", "vf.seed_tool", "run" if kind == "seeded" else "run_benign", mid, *props]
    p = subprocess.run(cmd, stdout=subprocess.PIPE, stderr=subprocess.STDOUT, text=True)
    out = "\n".join(l for l in p.stdout.splitlines() if "WARNING conda" not in l)
    print(out, flush=True)


def main():
    lines = [l.strip() for l in open(sys.argv[1]) if l.strip() and not l.startswith("#")]
    par = int(sys.argv[2]) if len(sys.argv) > 2 else 2
    with ThreadPoolExecutor(par) as ex:
        list(ex.map(one, lines))


if __name__ == "__main__":
    main()
