#!/bin/sh
# run the quick checks against every benign change (must stay quiet: exit 0, no VIOLATION)
cd "$(dirname "$0")/.."
run() { id=$1; shift; python3 -m vf.seed_tool run_benign "$id" "$@"; }
run C01_b1 C01 C04; run C01_b2 C01 C06
run C04_b1 C04 C06; run C04_b2 C04 C05
run C06_b1 C06 C03; run C06_b2 C06 C04
run C07_b1 C07 C11; run C07_b2 C07 C01
run C09_b1 C09 C10; run C09_b2 C09 C08
run C11_b1 C11 C07; run C11_b2 C11 C03
run C12_b1 C12 C14; run C12_b2 C12 C14
run C15_b1 C15 C16; run C15_b2 C15 C14
run C17_b1 C17; run C17_b2 C17
run C18_b1 C18; run C18_b2 C18
