"""C14 (round trips), C15 (subset export), C16 (read-only operations): the exporters, importers
and queries are run on the real tracks reached by catalogue paths of the editing model."""
from __future__ import annotations

import glob
import json
import os
import re
import shutil
import subprocess
import tempfile
import time
from concurrent.futures import ThreadPoolExecutor

from . import coreflow as cf
from . import evidence, tlc
from .tlc import MachineryError

ROOT = cf.ROOT
WHAT = {"C14": "rt", "C15": "sub", "C16": "ro"}


def variant(base, name, **cfg_over):
    s = dict(cf.SUITES[base])
    s["cfg"] = dict(s["cfg"])
    s["cfg"].update(cfg_over)
    s["cfg"]["name"] = name
    return s


# export suites: (suite, states used in quick / thorough)
def suites():
    return {
        "x_struct4": (variant("struct4s", "x_struct4"), 90, 1500),
        "x_peraxis": (variant("struct3p", "x_peraxis"), 60, 600),
        # node ids start at 0 (tracks constructed from a relabelled copy of the graph)
        "x_struct0": (variant("struct4s", "x_struct0", rebuild={"shift": 0, "nshift": 1}), 75, 1500),
        # a registered static node feature that only some nodes carry
        "x_structc": (variant("struct3c", "x_structc"), 80, 436),
        # tracks CONSTRUCTED from a graph that already carries ids (0-based), as after load / import
        "x_structz": (variant("struct3z", "x_structz"), 60, 600),
        # ... through from_tracks (ids kept) / with recomputed ids
        "x_structzf": (variant("struct3zf", "x_structzf"), 60, 600),
        "x_structzc": (variant("struct3zc", "x_structzc"), 60, 600),
        # attribute names chosen by the caller
        "x_structk": (variant("struct3k", "x_structk"), 60, 600),
        "x_seg13": (variant("seg13", "x_seg13"), 90, 1500),
        # abstract columns 0,1,2 at real columns 0,63,64 of a 70-wide array: straddles the exporter's 64-voxel chunks
        "x_seg13e": (variant("seg13", "x_seg13e", embed=[70, [0, 63, 64]]), 90, 1500),
        "x_seg13n": (variant("seg13n", "x_seg13n"), 40, 600),
        # embedded along EVERY axis of a (66, 66, 70) array: frames 0,1,2 at real frames 0,63,65, the row at real row 0,
        # columns at 0,63,64 - the first 64x64x64 chunk of the exporter is a full chunk and holds several masks,
        # and one frame lies beyond the 64th
        "x_seg13f": (variant("seg13", "x_seg13f", embed={"shape": [66, 66, 70], "tmap": [0, 63, 65],
                                                         "amap": [[0], [0, 63, 64]]}), 40, 600),
        "x_seg3d": (variant("seg3d", "x_seg3d"), 40, 600),
        # an 8-bit label array whose nodes carry track ids beyond 8 bits (real id = model id + 300): the exported
        # array is labelled by track id, so its dtype cannot be the source's
        # states after enable / disable calls (a core feature may be switched off): save / load keeps the registry
        "x_featns": (variant("featns", "x_featns", formats=["internal"]), 80, 800),
        "x_feat13": (variant("feat13", "x_feat13", formats=["internal"]), 60, 600),
        # stored positions that are not the mask centroids (constructed from a graph that carries them); the GEFF name
        # map of the re-import also comes without the area (recomputed) - loaded positions must survive
        "x_seg13o": (variant("seg13", "x_seg13o", rebuild={"shift": 0, "posoff": True},
                             formats=["csv", "geff", "geff_na", "internal"]), 40, 400),
        # per-axis positions with the lineage feature switched off (its values are still on the graph)
        "x_peraxisd": (variant("struct3p", "x_peraxisd", disable=["lid"]), 40, 400),
        # a label in the array that belongs to no node (an unselected detection)
        "x_seg13u": (variant("seg13", "x_seg13u", rebuild={"shift": 0, "orphan": True}, formats=["geff", "internal"]), 40, 400),
        "x_seg13b": (variant("seg13", "x_seg13b", rebuild={"shift": -300}, seg_dtype="uint8"), 40, 600),
    }


PLAN = {"C14": ["x_struct4", "x_struct0", "x_structc", "x_peraxis", "x_structk", "x_seg13", "x_seg13n", "x_seg3d", "x_featns", "x_feat13", "x_seg13o", "x_seg13u"],
        "C15": ["x_struct4", "x_struct0", "x_seg13e", "x_seg13f", "x_seg3d", "x_seg13b"],
        "C16": ["x_struct4", "x_struct0", "x_peraxis", "x_peraxisd", "x_structk", "x_structz", "x_structzf", "x_structzc", "x_seg13e", "x_seg13f", "x_seg13n", "x_seg3d"]}

RULE = {"C14": "one record per (catalogue state, format in csv/geff/internal); non-trivial = state with at least one edge",
        "C15": "one record per (catalogue state, EVERY subset of its nodes, format in csv/geff); non-trivial = selection whose ancestor closure adds nodes",
        "C16": "one record per (catalogue state, read-only operation: full/subset csv export, full/subset geff export, save, all queries); "
               "non-trivial = state with at least one edge"}


def run(prop, tier, seed, replay_path=None):
    import random
    t0 = time.time()
    scratch_root = tempfile.mkdtemp(prefix=f"vf_{prop}_")
    logs = []
    log = logs.append
    viols, samples, infos, design = [], [], [], []
    known = {}
    total = nontriv = 0
    try:
        for sname in PLAN[prop]:
            suite, nq, nt = suites()[sname]
            scratch = os.path.join(scratch_root, sname)
            os.makedirs(scratch)
            base_suite = {k: v for k, v in suite.items()}
            d = cf.design_run(base_suite, tier, scratch, prop, log)
            design.append(d)
            paths, cinfo = cf.catalogue(dict(base_suite, sample={}), tier, scratch, seed, log)
            n = nq if tier == "quick" else nt
            if len(paths) > n:
                rnd = random.Random(seed)
                # always keep the seed states (shortest paths first), sample the rest
                paths = paths[:min(8, n)] + rnd.sample(paths[8:], n - min(8, n))
            cfgp = os.path.join(scratch, "hcfg.json")
            json.dump(suite["cfg"], open(cfgp, "w"))
            pp = os.path.join(scratch, "paths.json")
            json.dump(paths, open(pp, "w"))
            outdir = os.path.join(scratch, "exp")
            t1 = time.time()
            p = subprocess.run([cf.PY, os.path.join(ROOT, "harness", "export_ops.py"), cfgp, pp, outdir, str(cf.NCPU),
                                WHAT[prop]], stdout=subprocess.PIPE, stderr=subprocess.PIPE, text=True, env=cf.harness_env())
            if p.returncode != 0:
                raise MachineryError("export harness failed:\n" + p.stderr[-3000:])
            info = json.loads(p.stdout.strip().splitlines()[-1])
            info.update({"suite": sname, "catalogue_states": cinfo["catalogue_states"], "wall_s": round(time.time() - t1, 1)})
            shards = sorted(glob.glob(os.path.join(outdir, "*.ndjson")))
            consts = dict(suite["tla"])
            consts.update({"Fixes": tlc.tla_set(cf.ALL_FIXES), "Check": tlc.tla_set([prop])})
            tcfg = os.path.join(scratch, "trace.cfg")
            open(tcfg, "w").write(tlc.cfg_text(constants=consts, invariants=["Inv"], post="Post"))

            def one(sh):
                if os.path.getsize(sh) == 0:
                    return sh, ""
                out, dt, rc = tlc.run_tlc("TraceExport.tla", tcfg, scratch, workers=1, env={"TRACE_FILE": sh},
                                          tag=os.path.basename(sh))
                if not tlc.completed_ok(out):
                    log(out[-3000:])
                    raise MachineryError(f"TraceExport failed on {sh}")
                return sh, out
            seen = 0
            with ThreadPoolExecutor(max_workers=cf.NCPU) as ex:
                for sh, out in ex.map(one, shards):
                    for tt in tlc.tuples(out, "FAIL"):
                        idx = int(re.findall(r"-?\d+", tt.split(f'"{prop}"')[1])[0])
                        viols.append((sname, cf.get_record(sh, idx)))
                    for tt in tlc.tuples(out, "KNOWN"):
                        sig = tt.split('"')[3]
                        idx = int(re.findall(r"-?\d+", tt.split(f'"{sig}"')[1])[0])
                        known.setdefault(sig, []).append((sname, sh, idx))
                    for tt in tlc.tuples(out, "COUNTS"):
                        nums = [int(v) for v in re.findall(r"-?\d+", tt)]
                        seen += nums[0]
                        nontriv += nums[1]
            if seen != info["records"]:
                raise MachineryError(f"TLC saw {seen} records, harness wrote {info['records']}")
            total += seen
            infos.append(info)
            r = cf.get_record(shards[0], 3) if shards else None
            if r:
                samples.append({"suite": sname, "path": r["path"], "kind": r["kind"], "what": r.get("op") or r.get("fmt"),
                                "sel": r.get("sel"), "out_nodes": r.get("out_nodes"), "exc": r["exc"]})
    except MachineryError as e:
        print(f"MACHINERY-ERROR property={prop}: {e}")
        for l in logs[-2:]:
            print(l)
        shutil.rmtree(scratch_root, ignore_errors=True)
        return 2
    listed = {k["signature"]: k for k in evidence.known_findings()
              if k.get("status") == "known" and k.get("property") == prop and "signature" in k}
    for sig, occ in sorted(known.items()):
        if sig in listed:
            print(f"KNOWN-FINDING: property={prop} {listed[sig]['what']} (signature {sig}, {len(occ)} records)")
        else:
            for sname, sh, idx in occ:
                viols.append((sname, cf.get_record(sh, idx)))
    n_viol = 0
    rdir = os.path.join(cf.out_dir("replays"), prop)
    shutil.rmtree(rdir, ignore_errors=True)
    seen_sig = set()
    for sname, rec in viols:
        sig = json.dumps([sname, rec["path"], rec.get("op"), rec.get("fmt"), rec.get("sel")])
        if sig in seen_sig:
            continue
        seen_sig.add(sig)
        n_viol += 1
        if n_viol <= 20:
            os.makedirs(rdir, exist_ok=True)
            path = os.path.join(rdir, f"{sname}_{n_viol}.json")
            json.dump({"property": prop, "suite": sname, "record": rec}, open(path, "w"))
            print(f"VIOLATION property={prop} replay={path}")
    cov = {"states": sum(d["states"] for d in design), "transitions": sum(d["transitions"] for d in design),
           "traces_validated_against_impl": total, "evaluations": total, "distinct_nontrivial": nontriv,
           "rule": RULE[prop], "samples": samples[:6], "exhaustive": False, "runs": infos,
           "known_findings": {sig: len(o) for sig, o in known.items() if sig in listed},
           "design_level": [{k: v for k, v in d.items() if k != "constants"} for d in design]}
    evidence.write(prop, tier, seed, "model_checking", cov, time.time() - t0, n_viol, [
        "states are the catalogue states of the editing model (a seeded sample of them in the quick tier)",
        "files are read back with the key mapping that corresponds to the export; values are small rationals",
        "independent readers (pandas, zarr, geff.read) are trusted for what a subset export wrote"])
    shutil.rmtree(scratch_root, ignore_errors=True)
    print(f"property={prop} tier={tier} records={total} nontrivial={nontriv} violations={n_viol} wall={time.time() - t0:.0f}s")
    return 1 if n_viol else 0
