"""Confirm and run seeded changes (mutants written by independent sub-agents).

  python3 -m vf.seed_tool confirm <src_dir> <id> <property>   # re-verify in a scratch worktree, copy to seeded/<id>
  python3 -m vf.seed_tool run <id> [props...]                 # apply to /repo, run quick checks, undo
  python3 -m vf.seed_tool confirm_benign <src_dir> <id> <property>  # a change that must NOT raise an alarm -> benign/<id>
  python3 -m vf.seed_tool run_benign <id> [props...]
"""
from __future__ import annotations

import json
import os
import shutil
import subprocess
import sys
import time

ROOT = os.path.dirname(os.path.dirname(os.path.abspath(__file__)))
PY = "/venv/bin/python"


def sh(cmd, cwd=None, env=None, timeout=3600):
    e = dict(os.environ)
    if env:
        e.update(env)
    p = subprocess.run(cmd, cwd=cwd, env=e, shell=isinstance(cmd, str), stdout=subprocess.PIPE,
                       stderr=subprocess.STDOUT, text=True, timeout=timeout)
    return p.returncode, p.stdout


def confirm(src, mid, prop, benign=False):
    wt = f"/tmp/wt_confirm_{mid}"
    sh(f"git -C /repo worktree remove --force {wt}")
    rc, out = sh(f"git -C /repo worktree add -q --detach {wt} HEAD")
    assert rc == 0, out
    env = {"PYTHONPATH": f"{wt}/src"}
    res = {"id": mid, "property": prop, "base_commit": sh("git -C /repo rev-parse --short HEAD")[1].strip()}
    try:
        demo = os.path.join(src, "demo.py")
        rc0, out0 = sh([PY, demo], cwd=wt, env=env)
        res["demo_clean_exit"] = rc0
        rc, out = sh(["git", "apply", os.path.join(src, "patch.diff")], cwd=wt)
        res["patch_applies"] = rc == 0
        if rc != 0:
            res["apply_error"] = out[-500:]
        else:
            rc1, out1 = sh([PY, demo], cwd=wt, env=env)
            res["demo_patched_exit"] = rc1
            res["demo_patched_msg"] = out1.strip().splitlines()[-1][:300] if out1.strip() else ""
            rct, outt = sh([PY, "-m", "pytest", "-q", "-p", "no:cacheprovider", "-x", "tests"], cwd=wt, env=env)
            res["suite_exit"] = rct
            res["suite_tail"] = outt.strip().splitlines()[-1][:200]
    finally:
        sh(f"git -C /repo worktree remove --force {wt}")
    ok = res.get("patch_applies") and res["demo_clean_exit"] == 0 and res.get("suite_exit") == 0 \
        and ((res.get("demo_patched_exit", 1) == 0) if benign else (res.get("demo_patched_exit", 0) != 0))
    res["confirmed"] = bool(ok)
    if ok:
        dst = os.path.join(ROOT, "benign" if benign else "seeded", mid)
        os.makedirs(dst, exist_ok=True)
        for f in ("patch.diff", "demo.py", "notes.md"):
            if os.path.exists(os.path.join(src, f)):
                shutil.copy(os.path.join(src, f), os.path.join(dst, f))
        notes = open(os.path.join(src, "notes.md")).read() if os.path.exists(os.path.join(src, "notes.md")) else ""
        meta = {"id": mid, ("keeps_property" if benign else "breaks_property"): prop, "needs_to_manifest": notes[:1500],
                "confirmed": res, "what_i_ran": [
                    "scratch worktree of /repo HEAD: demo.py on the clean tree (exit 0 expected)",
                    "git apply patch.diff; full pytest suite (must pass); demo.py (must exit "
                    + ("0: the property still holds)" if benign else "non-zero)")],
                "detected_by": {}}
        json.dump(meta, open(os.path.join(dst, "meta.json"), "w"), indent=1)
    print(json.dumps(res))
    return ok


def run(mid, props, kind="seeded"):
    """Run the quick checks against the seeded change, in a scratch worktree of /repo HEAD with the
    patch applied (same effect as `git -C /repo apply` + run + `git checkout`, without disturbing /repo)."""
    dst = os.path.join(ROOT, kind, mid)
    meta = json.load(open(os.path.join(dst, "meta.json")))
    props = props or [meta.get("breaks_property") or meta["keeps_property"]]
    wt = f"/tmp/wt_run_{mid}"
    out_dir = f"/tmp/vf_out_{mid}"
    sh(f"git -C /repo worktree remove --force {wt}")
    rc, out = sh(f"git -C /repo worktree add -q --detach {wt} HEAD")
    assert rc == 0, out
    try:
        rc, out = sh(["git", "apply", os.path.join(dst, "patch.diff")], cwd=wt)
        assert rc == 0, out
        for p in props:
            t0 = time.time()
            rc, out = sh([os.path.join(ROOT, "check"), p, "--tier", "quick"], cwd=ROOT,
                         env={"VERIF_FUNTRACKS_SRC": f"{wt}/src", "VERIF_OUT_DIR": out_dir})
            viol = [l for l in out.splitlines() if l.startswith("VIOLATION")]
            drift = [l for l in out.splitlines() if l.startswith("DRIFT")]
            meta["detected_by"][p] = {"exit": rc, "violations": len(viol), "drift_lines": len(drift),
                                      "first": (viol or drift or [""])[0][:300], "wall_s": round(time.time() - t0),
                                      "tail": out.strip().splitlines()[-1][:300] if out.strip() else ""}
            print(mid, p, "exit", rc, "violations", len(viol), "drift", len(drift), flush=True)
    finally:
        sh(f"git -C /repo worktree remove --force {wt}")
        shutil.rmtree(out_dir, ignore_errors=True)
    json.dump(meta, open(os.path.join(dst, "meta.json"), "w"), indent=1)
    if os.environ.get("VERIF_SEED_RESULTS"):
        # (runs from a snapshot of /verif: results are collected elsewhere and merged by `merge`)
        os.makedirs(os.environ["VERIF_SEED_RESULTS"], exist_ok=True)
        json.dump(meta["detected_by"], open(os.path.join(os.environ["VERIF_SEED_RESULTS"], f"{mid}.json"), "w"), indent=1)


def merge(res_dir, kind="seeded"):
    for f in sorted(os.listdir(res_dir)):
        mid = f[:-5]
        mp = os.path.join(ROOT, kind, mid, "meta.json")
        if not os.path.exists(mp):
            mp = os.path.join(ROOT, "benign", mid, "meta.json")
        meta = json.load(open(mp))
        meta["detected_by"].update(json.load(open(os.path.join(res_dir, f))))
        json.dump(meta, open(mp, "w"), indent=1)
        print("merged", mid, {k: (v["exit"], v["violations"]) for k, v in meta["detected_by"].items()})


if __name__ == "__main__":
    if sys.argv[1] == "confirm":
        sys.exit(0 if confirm(sys.argv[2], sys.argv[3], sys.argv[4]) else 1)
    elif sys.argv[1] == "run":
        run(sys.argv[2], sys.argv[3:])
    elif sys.argv[1] == "confirm_benign":
        sys.exit(0 if confirm(sys.argv[2], sys.argv[3], sys.argv[4], benign=True) else 1)
    elif sys.argv[1] == "merge":
        merge(sys.argv[2])
    elif sys.argv[1] == "run_benign":
        run(sys.argv[2], sys.argv[3:], kind="benign")
