"""C02: undo/redo follow a never-forgetting linear timeline."""
from __future__ import annotations

import glob
import json
import os
import re
import shutil
import subprocess
import tempfile
import time
from concurrent.futures import ThreadPoolExecutor

from . import coreflow as cf
from . import evidence, tlc
from .tlc import MachineryError

ROOT = cf.ROOT


def alphabets():
    """The edit alphabets are defined once, in MCHist.tla."""
    src = open(os.path.join(tlc.SPEC_DIR, "MCHist.tla")).read()
    out = {}
    for m in re.finditer(r"^(HC_\w+) == \{(.*)\}\s*$", src, re.M):
        out[m.group(1)] = [[int(x) for x in t.split(",")] for t in re.findall(r"<<([^<>]*)>>", m.group(2))]
    return out


def prefixes():
    src = open(os.path.join(tlc.SPEC_DIR, "MCHist.tla")).read()
    out = {}
    for m in re.finditer(r"^(PX_\w+) == <<(.*)>>\s*$", src, re.M):
        out[m.group(1)] = [[int(x) for x in t.split(",")] for t in re.findall(r"<<([^<>]+)>>", m.group(2))]
    return out


# suites whose sessions are also driven through the TracksController
CTL_SUITES = ("struct4", "seg13")
# alphabet -> (prefix, suite)
ALPHA_CFG = {"HC_D": ("PX_D", "struct4"), "HC_E": ("PX_E", "struct4")}


def design(name, depth, scratch, suite, log):
    consts = dict(suite["tla"])
    consts.update({"Fixes": tlc.tla_set(cf.ALL_FIXES), "Depth": str(depth), "MaxId": "10",
                   "RegCust": "FALSE", "HistCalls": f"<- {name}",
                   "Prefix": "<- " + ALPHA_CFG.get(name, ("PX_none", ""))[0]})
    cfgp = os.path.join(scratch, f"design_{name}.cfg")
    open(cfgp, "w").write(tlc.cfg_text(constants=consts, constraint="Bound",
                                        invariants=["AtTimeline", "RetUndo", "RetRedo", "NoopAtEnds", "StateInv"],
                                        properties=["Grows"]))
    out, dt, rc = tlc.run_tlc("MCHist.tla", cfgp, scratch, workers=cf.NCPU, tag=f"dh_{name}")
    st = tlc.stats(out)
    if not tlc.completed_ok(out) or st is None:
        log(out[-3000:])
        raise MachineryError(f"design-level history model check failed for {name}")
    return {"alphabet": name, "depth": depth, "states": st["distinct"], "transitions": st["generated"],
            "wall_s": round(dt, 1)}


def sessions(suite, spec, scratch, tag, script="sessions.py"):
    cfgp = os.path.join(scratch, f"hcfg_{tag}.json")
    json.dump(suite["cfg"], open(cfgp, "w"))
    sp = os.path.join(scratch, f"spec_{tag}.json")
    json.dump(spec, open(sp, "w"))
    outdir = os.path.join(scratch, f"ses_{tag}")
    p = subprocess.run([cf.PY, os.path.join(ROOT, "harness", script), cfgp, sp, outdir, str(cf.NCPU)],
                       stdout=subprocess.PIPE, stderr=subprocess.PIPE, text=True, env=cf.harness_env())
    if p.returncode != 0:
        raise MachineryError("session harness failed:\n" + p.stderr[-3000:])
    info = json.loads(p.stdout.strip().splitlines()[-1])
    return sorted(glob.glob(os.path.join(outdir, "*.ndjson"))), info


def trace(suite, shards, scratch, log, props=("C02",), module="TraceHist.tla"):
    consts = dict(suite["tla"])
    consts.update({"Fixes": tlc.tla_set(cf.ALL_FIXES), "Check": tlc.tla_set(sorted(props) + ["REF"])})
    cfgp = os.path.join(scratch, f"trace_{suite['cfg']['name']}.cfg")
    open(cfgp, "w").write(tlc.cfg_text(constants=consts, invariants=["Inv"], post="Post"))

    def one(sh):
        if os.path.getsize(sh) == 0:
            return sh, ""
        out, dt, rc = tlc.run_tlc(module, cfgp, scratch, workers=1, env={"TRACE_FILE": sh},
                                  tag=os.path.basename(os.path.dirname(sh)) + os.path.basename(sh))
        if not tlc.completed_ok(out):
            log(out[-3000:])
            raise MachineryError(f"{module} failed on {sh}")
        return sh, out

    res = {"fails": [], "drift": [], "sessions": 0, "steps": 0, "undoredo": 0}
    with ThreadPoolExecutor(max_workers=cf.NCPU) as ex:
        for sh, out in ex.map(one, shards):
            for t in tlc.tuples(out, "FAIL"):
                name = t.split('"')[3]
                nums = [int(x) for x in re.findall(r"-?\d+", t.split(f'"{name}"')[1])]
                if name in props:
                    res["fails"].append((sh, nums[0], nums[1]))
            for t in tlc.tuples(out, "DRIFT"):
                nums = [int(x) for x in re.findall(r"-?\d+", t)]
                res["drift"].append((sh, nums[0], nums[1]))
            for t in tlc.tuples(out, "COUNTS"):
                nums = [int(x) for x in re.findall(r"-?\d+", t)]
                res["sessions"] += nums[0]; res["steps"] += nums[1]; res["undoredo"] += nums[2]
    return res


def session_phase(prop, tier, seed, scratch, log, suites=("struct4", "struct3")):
    """Seeded random sessions (edits, undo, redo) with the state invariant of `prop` evaluated by TLC
    after every call. Returns (violations, info)."""
    nrand = 250 if tier == "quick" else 4000
    viols, infos = [], []
    plans = []
    for k, sname in enumerate(suites):
        suite = cf.SUITES[sname]
        # (sessions never contain the construction call 12: it replaces the object, and with it the history whose
        #  timeline the session checks follow)
        plans.append((sname, suite, {"mode": "random", "count": nrand, "length": 40, "seed": seed + 17 * k,
                                     "kinds": [k_ for k_ in suite["kinds"] if k_ != 12], "p_undo": 0.28, "p_redo": 0.2}))
    if "struct4" in suites:
        # all sequences over the edit alphabets of MCHist.tla (+ undo, redo), after their prefixes
        alph, pre = alphabets(), prefixes()
        for name in sorted(alph):
            pname, sname = ALPHA_CFG.get(name, ("PX_none", "struct3"))
            plans.append((f"{sname}_{name}", cf.SUITES[sname],
                          {"mode": "exhaustive", "alphabet": alph[name], "length": 4 if tier == "quick" else 5,
                           "prefix": pre.get(pname, [])}))
    for sname in suites:
        if sname in CTL_SUITES and prop != "C20":
            suite = cf.SUITES[sname]
            plans.append((f"ctl_{sname}", suite, {"mode": "ctl", "count": nrand // 2, "length": 30, "seed": seed + 5,
                                                  "kinds": [k_ for k_ in suite["kinds"] if k_ != 12]}))
    for sname, suite, spec in plans:
        if spec["mode"] == "ctl":
            shards, info = sessions(suite, spec, scratch, f"inv_{sname}", script="ctl.py")
            res = trace(suite, shards, scratch, log, props=(prop,), module="TraceCtl.tla")
        else:
            shards, info = sessions(suite, spec, scratch, f"inv_{sname}")
            res = trace(suite, shards, scratch, log, props=(prop,))
        if res["sessions"] != info["sessions"]:
            raise MachineryError(f"TLC saw {res['sessions']} sessions, harness wrote {info['sessions']}")
        info.update({"suite": sname, "fails": len(res["fails"]), "drift": len(res["drift"]), "steps": res["steps"]})
        infos.append(info)
        for sh, idx, step in res["fails"]:
            rec = cf.get_record(sh, idx)
            viols.append({"suite": sname, "step": step, "calls": [s["c"] for s in rec["steps"]][:step], "session": rec})
    return viols, infos


def run(prop, tier, seed, replay_path=None):
    assert prop == "C02"
    t0 = time.time()
    scratch = tempfile.mkdtemp(prefix="vf_C02_")
    logs = []
    log = logs.append
    alph = alphabets()
    s3, s4 = cf.SUITES["struct3"], cf.SUITES["struct4"]
    ddepth = 6 if tier == "quick" else 9
    slen = 5 if tier == "quick" else 6
    design_info, ses_info, violations, drift = [], [], [], []
    tot_sessions = tot_steps = tot_ur = 0
    try:
        pre = prefixes()
        plans = []
        for name in sorted(alph):
            pname, sname = ALPHA_CFG.get(name, ("PX_none", "struct3"))
            suite = cf.SUITES[sname]
            design_info.append(design(name, ddepth, scratch, suite, log))
            plans.append((suite, {"mode": "exhaustive", "alphabet": alph[name], "length": slen,
                                  "prefix": pre.get(pname, [])}, name))
        nrand = 400 if tier == "quick" else 6000
        plans.append((s4, {"mode": "random", "count": nrand, "length": 40, "seed": seed, "kinds": [1, 2, 3, 4, 5, 6],
                           "p_undo": 0.28, "p_redo": 0.2}, "random4"))
        plans.append((s3, {"mode": "random", "count": nrand, "length": 60, "seed": seed + 1, "kinds": [1, 2, 3, 4, 5, 6],
                           "p_undo": 0.3, "p_redo": 0.25}, "random3"))
        # the same calls through the deprecated TracksController (spec/Ctl.tla): a batch is one timeline step per
        # refresh it emits; "ctlp" sessions end with an update_node_attrs batch that fails half-way (refinement only)
        nctl = 160 if tier == "quick" else 3000
        for k, sname in enumerate(CTL_SUITES):
            cs = cf.SUITES[sname]
            plans.append((cs, {"mode": "ctl", "count": nctl, "length": 30, "seed": seed + 31 * k, "kinds": [k_ for k_ in cs["kinds"] if k_ != 12]},
                          f"ctl_{sname}"))
        plans.append((s4, {"mode": "ctlp", "count": nctl // 2, "length": 12, "seed": seed + 7, "kinds": [k_ for k_ in s4["kinds"] if k_ != 12],
                           "partial": True}, "ctlp_struct4"))
        samples = []
        for suite, spec, tag in plans:
            if spec["mode"] in ("ctl", "ctlp"):
                shards, info = sessions(suite, spec, scratch, tag, script="ctl.py")
                res = trace(suite, shards, scratch, log, props=("C02",) if spec["mode"] == "ctl" else (),
                            module="TraceCtl.tla")
            else:
                shards, info = sessions(suite, spec, scratch, tag)
                res = trace(suite, shards, scratch, log)
            if res["sessions"] != info["sessions"]:
                raise MachineryError(f"TLC saw {res['sessions']} sessions, harness wrote {info['sessions']}")
            info.update({"plan": tag, "suite": suite["cfg"]["name"], "mode": spec["mode"], "length": spec["length"],
                         "drift": len(res["drift"]), "fails": len(res["fails"])})
            ses_info.append(info)
            tot_sessions += res["sessions"]; tot_steps += res["steps"]; tot_ur += res["undoredo"]
            for sh, idx, step in res["fails"]:
                rec = cf.get_record(sh, idx)
                violations.append({"plan": tag, "suite": suite["cfg"]["name"], "step": step,
                                   "calls": [s["c"] for s in rec["steps"]], "session": rec})
            for sh, idx, step in res["drift"][:10]:
                rec = cf.get_record(sh, idx)
                drift.append({"plan": tag, "step": step, "calls": [s["c"] for s in rec["steps"]][:step]})
            if shards:
                r = cf.get_record(shards[0], 7)
                if r:
                    samples.append({"plan": tag, "calls": [s["c"] for s in r["steps"]],
                                    "outcomes": [[s["ok"], s["ret"]] for s in r["steps"]]})
    except MachineryError as e:
        print(f"MACHINERY-ERROR property=C02: {e}")
        for l in logs[-2:]:
            print(l)
        shutil.rmtree(scratch, ignore_errors=True)
        return 2
    n_viol = 0
    seen = set()
    rdir = os.path.join(cf.out_dir("replays"), "C02")
    shutil.rmtree(rdir, ignore_errors=True)
    for v in violations:
        sig = json.dumps(v["calls"][:v["step"]])
        if sig in seen:
            continue
        seen.add(sig)
        n_viol += 1
        if n_viol <= 20:
            os.makedirs(rdir, exist_ok=True)
            path = os.path.join(rdir, f"{v['plan']}_{n_viol}.json")
            json.dump({"property": "C02", "suite": v["suite"], "failing_step": v["step"], "session": v["session"]},
                      open(path, "w"))
            print(f"VIOLATION property=C02 replay={path}")
    for d in drift[:10]:
        print(f"DRIFT property=C02 plan={d['plan']} step={d['step']} calls={d['calls']}")
    cov = {
        "states": sum(d["states"] for d in design_info),
        "transitions": sum(d["transitions"] for d in design_info),
        "traces_validated_against_impl": tot_sessions,
        "evaluations": tot_steps,
        "distinct_nontrivial": tot_ur,
        "rule": "sessions = all sequences of the stated length over {alphabet edits, undo, redo} (exhaustive plans) plus seeded "
                "random sessions; non-trivial = undo()/redo() calls that actually stepped (returned True), counted by TLC",
        "samples": samples[:5],
        "exhaustive": True,
        "design_level": design_info, "sessions": ses_info,
        "drift": drift, "drift_count": sum(s["drift"] for s in ses_info),
    }
    evidence.write("C02", tier, seed, "model_checking", cov, time.time() - t0, n_viol, [
        "the projection harness/core.py reads the real object faithfully",
        "exhaustive only up to the stated session length over three 6-7 call alphabets; longer sessions are sampled",
    ])
    shutil.rmtree(scratch, ignore_errors=True)
    print(f"property=C02 tier={tier} sessions={tot_sessions} steps={tot_steps} stepping_undo_redo={tot_ur} "
          f"violations={n_viol} drift={cov['drift_count']} wall={time.time() - t0:.0f}s")
    return 1 if n_viol else 0
