"""Check flow for the editing-core properties (C01, C03..C11, C20):

  1. design level : TLC explores the TLA+ model exhaustively within the suite's bounds and
                    checks the property on every call from every reachable state;
  2. spec -> code : TLC emits one access path per distinct abstract state (catalogue); the
                    harness replays each into the real SolutionTracks and fires the whole
                    call alphabet from the real state, each followed by undo() and redo();
  3. code -> spec : TLC (TraceStep.tla) evaluates the property predicates on the recorded
                    REAL states and checks that the model's step from the real pre-state
                    reproduces the real post-state (refinement).
Verdict: VIOLATION only if a property predicate is false on real data.
"""
from __future__ import annotations

import glob
import json
import os
import random
import shutil
import subprocess
import sys
import tempfile
import time
from concurrent.futures import ThreadPoolExecutor

from . import tlc
from .tlc import MachineryError

ROOT = os.path.dirname(os.path.dirname(os.path.abspath(__file__)))
PY = "/venv/bin/python"
ALL_FIXES = ["F1", "F2", "F3", "F4", "F7", "F9", "F10", "F22", "F24", "F25"]
NCPU = os.cpu_count() or 4

# ---------------------------------------------------------------------------------------
# suites: a universe + how the real tracks are configured
# ---------------------------------------------------------------------------------------
SUITES = {
    "struct3": {
        "tla": {"N": "3", "T": "3", "Dims": "<- D_none", "Scale": "<- S_none"},
        "cfg": {"N": 3, "T": 3, "dims": [], "scale": [], "use_scale": True, "reg_cust": False,
                "per_axis_pos": False, "name": "struct3"},
        "kinds": [1, 2, 3, 4, 5, 6],
        "depth": {"quick": 5, "thorough": 8}, "maxid": 8,
        "design_depth": {"quick": 3, "thorough": 4},
    },
    "struct3c": {   # custom attribute registered as a feature (so DeleteNode captures it)
        "tla": {"N": "3", "T": "3", "Dims": "<- D_none", "Scale": "<- S_none"},
        "cfg": {"N": 3, "T": 3, "dims": [], "scale": [], "use_scale": True, "reg_cust": True,
                "per_axis_pos": False, "name": "struct3c"},
        "kinds": [1, 2, 3, 4, 5, 6],
        "depth": {"quick": 3, "thorough": 6}, "maxid": 8,
        "design_depth": {"quick": 2, "thorough": 4},
    },
    "struct4": {
        "tla": {"N": "4", "T": "3", "Dims": "<- D_none", "Scale": "<- S_none"},
        "cfg": {"N": 4, "T": 3, "dims": [], "scale": [], "use_scale": True, "reg_cust": False,
                "per_axis_pos": False, "name": "struct4"},
        "kinds": [1, 2, 3, 4, 5, 6],
        "depth": {"quick": 4, "thorough": 5}, "maxid": 8,
        "design_depth": {"quick": 2, "thorough": 3},
        "sample": {"quick": 250, "thorough": 3000},
    },
}

def _seg_suite(name, dims, dname, scale, sname, use_scale=True, depth=(2, 3), sample=None):
    d = {
        "tla": {"N": "3", "T": "3", "Dims": f"<- {dname}", "Scale": f"<- {sname}"},
        "cfg": {"N": 3, "T": 3, "dims": dims, "scale": scale, "use_scale": use_scale, "reg_cust": False,
                "per_axis_pos": False, "name": name, "enable": ["iou"]},
        "kinds": [2, 3, 4, 5, 6, 9], "extra_act": ["iou"], "seeds": "SeedsSeg",
        "depth": {"quick": depth[0], "thorough": depth[1]}, "maxid": 8,
        "design_depth": {"quick": 0, "thorough": 1}, "cat_workers": 8,
    }
    if sample:
        d["sample"] = sample
    return d


SUITES["seg13"] = _seg_suite("seg13", [1, 3], "D_1x3", [1, 1], "S_11", sample={"quick": 1000, "thorough": 12000})
SUITES["seg22"] = _seg_suite("seg22", [2, 2], "D_2x2", [2, 3], "S_23", sample={"quick": 600, "thorough": 8000})
SUITES["seg3d"] = _seg_suite("seg3d", [1, 2, 2], "D_1x2x2", [2, 1, 3], "S_213", sample={"quick": 350, "thorough": 8000})
SUITES["seg13n"] = _seg_suite("seg13n", [1, 3], "D_1x3", [1, 1], "S_11", use_scale=False,
                              sample={"quick": 400, "thorough": 4000})
SUITES["struct4"]["seeds"] = "SeedsStruct4"
SUITES["struct4"]["simulate"] = {"thorough": (60, 16, 600)}
SUITES["struct3"]["simulate"] = {"thorough": (60, 16, 400)}
SUITES["seg13"]["simulate"] = {"thorough": (30, 10, 300)}
SUITES["struct4s"] = {
    "tla": {"N": "4", "T": "3", "Dims": "<- D_none", "Scale": "<- S_none"},
    "cfg": {"N": 4, "T": 3, "dims": [], "scale": [], "use_scale": True, "reg_cust": False,
            "per_axis_pos": False, "name": "struct4s"},
    "kinds": [1, 2, 3, 4, 5, 6], "seeds": "SeedsStruct4s",
    "depth": {"quick": 1, "thorough": 3}, "maxid": 9,
    "design_depth": {"quick": 0, "thorough": 1}, "sample": {"quick": 400, "thorough": 20000},
}
# states CONSTRUCTED from a graph (ids shifted to 0-based, falsy custom edge attribute, custom node feature)
SUITES["struct3z"] = {
    "tla": SUITES["struct3"]["tla"],
    "cfg": {"N": 3, "T": 3, "dims": [], "scale": [], "use_scale": True, "reg_cust": True, "per_axis_pos": False,
            "name": "struct3z", "rebuild": {"shift": 1, "ecust": True}},
    "kinds": [1, 2, 3, 4, 5, 6], "depth": {"quick": 4, "thorough": 7}, "maxid": 8,
    "design_depth": {"quick": 2, "thorough": 4},
}
# states constructed through Tracks(...) + SolutionTracks.from_tracks with the ids kept (zf) / from a graph whose ids
# were removed, i.e. recomputed in bulk (zc); the whole alphabet is then fired from the constructed object
SUITES["struct3zf"] = {
    "tla": SUITES["struct3"]["tla"],
    "cfg": {"N": 3, "T": 3, "dims": [], "scale": [], "use_scale": True, "reg_cust": False, "per_axis_pos": False,
            "name": "struct3zf", "rebuild": {"mode": 4}},
    "kinds": [1, 2, 3, 4, 5, 6], "depth": {"quick": 2, "thorough": 6}, "maxid": 8,
    "design_depth": {"quick": 2, "thorough": 4}, "sample": {"thorough": 3000},
}
SUITES["struct3zc"] = {
    "tla": SUITES["struct3"]["tla"],
    "cfg": {"N": 3, "T": 3, "dims": [], "scale": [], "use_scale": True, "reg_cust": False, "per_axis_pos": False,
            "name": "struct3zc", "rebuild": {"mode": 3}},
    "kinds": [1, 2, 3, 4, 5, 6], "depth": {"quick": 2, "thorough": 6}, "maxid": 8,
    "design_depth": {"quick": 2, "thorough": 4}, "sample": {"thorough": 3000},
}
SUITES["seg13z"] = _seg_suite("seg13z", [1, 3], "D_1x3", [1, 1], "S_11", sample={"quick": 400, "thorough": 6000})
SUITES["seg13z"]["cfg"]["rebuild"] = {"shift": 1, "ecust": True}
# position stored under one attribute per axis
SUITES["struct3p"] = {
    "tla": SUITES["struct3"]["tla"],
    "cfg": {"N": 3, "T": 3, "dims": [], "scale": [], "use_scale": True, "reg_cust": False, "per_axis_pos": True,
            "name": "struct3p"},
    "kinds": [1, 2, 3, 4, 5, 6], "depth": {"quick": 4, "thorough": 7}, "maxid": 8,
    "design_depth": {"quick": 2, "thorough": 4},
}
# larger universes, explored from seeds only
SUITES["struct5s"] = {
    "tla": {"N": "5", "T": "4", "Dims": "<- D_none", "Scale": "<- S_none"},
    "cfg": {"N": 5, "T": 4, "dims": [], "scale": [], "use_scale": True, "reg_cust": False,
            "per_axis_pos": False, "name": "struct5s"},
    "kinds": [1, 2, 3, 4, 5, 6], "seeds": "SeedsStruct5s",
    "depth": {"quick": 1, "thorough": 2}, "maxid": 12,
    "design_depth": {"quick": 0, "thorough": 0}, "sample": {"quick": 260, "thorough": 3000}, "cat_workers": 8,
}
SUITES["struct5"] = dict(SUITES["struct5s"])        # universe of the random sessions
SUITES["seg6s"] = _seg_suite("seg6s", [1, 3], "D_1x3", [1, 1], "S_11", depth=(0, 1), sample={"quick": 20, "thorough": 1500})
SUITES["seg6s"]["tla"] = {"N": "6", "T": "3", "Dims": "<- D_1x3", "Scale": "<- S_11"}
SUITES["seg6s"]["cfg"]["N"] = 6
SUITES["seg6s"]["seeds"] = "SeedsSeg6s"
SUITES["seg6s"]["maxid"] = 12
SUITES["seg6s"]["design_depth"] = {"quick": -1, "thorough": 0}
SUITES["seg5s"] = _seg_suite("seg5s", [1, 3], "D_1x3", [1, 1], "S_11", depth=(0, 1), sample={"quick": 30, "thorough": 1500})
SUITES["seg5s"]["tla"] = {"N": "5", "T": "3", "Dims": "<- D_1x3", "Scale": "<- S_11"}
SUITES["seg5s"]["cfg"]["N"] = 5
SUITES["seg5s"]["cfg"]["enable"] = []           # IoU is enabled later, by calls of the alphabet (bulk path)
SUITES["seg5s"]["extra_act"] = []
SUITES["seg5s"]["seeds"] = "SeedsSeg5s"
SUITES["seg5s"]["kinds"] = [2, 3, 4, 9, 10]
SUITES["seg5s"]["maxid"] = 12
SUITES["seg5s"]["design_depth"] = {"quick": -1, "thorough": 0}
# primitive actions called directly (C01): action, .inverse(), .inverse().inverse()
SUITES["prims3"] = {
    "tla": SUITES["struct3"]["tla"],
    "cfg": {"N": 3, "T": 3, "dims": [], "scale": [], "use_scale": True, "reg_cust": True, "per_axis_pos": False,
            "name": "prims3"},
    "kinds": [1, 2, 3, 4, 5, 6, 21], "fire_kinds": [21], "depth": {"quick": 4, "thorough": 6}, "maxid": 8,
    "design_depth": {"quick": 2, "thorough": 3}, "sample": {"quick": 500, "thorough": 5000},
}
SUITES["primseg"] = _seg_suite("primseg", [1, 3], "D_1x3", [1, 2], "S_12", sample={"quick": 500, "thorough": 5000})
SUITES["primseg"]["kinds"] = [2, 3, 4, 5, 6, 9, 21]
SUITES["primseg"]["fire_kinds"] = [21]
# node ids start at 0 (real node id = model node id - 1): truthiness slips on node ids
SUITES["struct3n0"] = {
    "tla": SUITES["struct3"]["tla"],
    "cfg": {"N": 3, "T": 3, "dims": [], "scale": [], "use_scale": True, "reg_cust": False, "per_axis_pos": False,
            "name": "struct3n0", "node_shift": 1},
    "kinds": [1, 2, 3, 4, 5, 6], "depth": {"quick": 3, "thorough": 6}, "maxid": 8,
    "design_depth": {"quick": 2, "thorough": 4},
}
# attribute names chosen by the caller (time "t", position "position", track id "trk", lineage id "lin")
SUITES["struct3k"] = {
    "tla": SUITES["struct3"]["tla"],
    "cfg": {"N": 3, "T": 3, "dims": [], "scale": [], "use_scale": True, "reg_cust": False, "per_axis_pos": False,
            "name": "struct3k", "custom_keys": True},
    "kinds": [1, 2, 3, 4, 5, 6, 12], "depth": {"quick": 3, "thorough": 6}, "maxid": 8,
    "design_depth": {"quick": 2, "thorough": 3}, "sample": {"quick": 300, "thorough": 4000},
}
# "warm" objects: before a path is replayed every node id has been used once in another frame, linked, queried and
# deleted again (stale per-id / per-frame memory, advanced counters, a non-empty undo history)
SUITES["struct3w"] = {
    "tla": SUITES["struct3"]["tla"],
    "cfg": {"N": 3, "T": 3, "dims": [], "scale": [], "use_scale": True, "reg_cust": False, "per_axis_pos": False,
            "name": "struct3w", "warm": True},
    "kinds": [1, 2, 3, 4, 5, 6], "depth": {"quick": 3, "thorough": 6}, "maxid": 8,
    "design_depth": {"quick": 2, "thorough": 4}, "sample": {"thorough": 4000},
}
SUITES["seg13w"] = _seg_suite("seg13w", [1, 3], "D_1x3", [1, 1], "S_11", sample={"quick": 300, "thorough": 4000})
SUITES["seg13w"]["cfg"]["warm"] = True
# the label array is a non-contiguous view of a wider array
SUITES["seg13v"] = _seg_suite("seg13v", [1, 3], "D_1x3", [1, 1], "S_11", sample={"quick": 250, "thorough": 4000})
SUITES["seg13v"]["cfg"]["seg_view"] = True
# the 4-node seed shapes (division, skip edge, grandchild ...) with node ids starting at 0
SUITES["struct4n0"] = {
    "tla": SUITES["struct4s"]["tla"],
    "cfg": {"N": 4, "T": 3, "dims": [], "scale": [], "use_scale": True, "reg_cust": False, "per_axis_pos": False,
            "name": "struct4n0", "node_shift": 1},
    "kinds": [1, 2, 3, 4, 5, 6], "seeds": "SeedsStruct4s", "depth": {"quick": 0, "thorough": 2}, "maxid": 9,
    "design_depth": {"quick": -1, "thorough": -1}, "sample": {"quick": 400, "thorough": 6000},
}
# feature switching
SUITES["featns"] = {
    "tla": SUITES["struct3"]["tla"],
    "cfg": {"N": 3, "T": 3, "dims": [], "scale": [], "use_scale": True, "reg_cust": False, "per_axis_pos": False,
            "name": "featns"},
    "kinds": [1, 2, 3, 4, 6, 10], "depth": {"quick": 3, "thorough": 5}, "maxid": 8,
    "design_depth": {"quick": 2, "thorough": 3}, "sample": {"quick": 500, "thorough": 8000},
}
SUITES["feat13"] = _seg_suite("feat13", [1, 3], "D_1x3", [1, 1], "S_11", depth=(2, 3),
                              sample={"quick": 400, "thorough": 8000})
SUITES["feat13"]["kinds"] = [2, 3, 4, 6, 9, 10]
SUITES["feat22"] = _seg_suite("feat22", [2, 2], "D_2x2", [1, 1], "S_11", depth=(2, 2),
                              sample={"quick": 300, "thorough": 6000})
SUITES["feat22"]["kinds"] = [2, 3, 4, 6, 9, 10]
# 3D + t with the 3D shape features (surface area, sphericity) enabled from the start; every mask of a
# 2x2x2 frame touches the border. Strokes of <= 2 voxels (skimage's marching cubes refuses a mask that fills
# the whole frame).
SUITES["feat3d"] = _seg_suite("feat3d", [2, 2, 2], "D_2x2x2", [1, 1, 1], "S_111", depth=(1, 2),
                              sample={"quick": 150, "thorough": 2500})
SUITES["feat3d"]["cfg"]["enable"] = ["iou", "circ", "perim"]
SUITES["feat3d"]["extra_act"] = ["iou", "circ", "perim"]
SUITES["feat3d"]["cfg"]["max_stroke"] = 2
SUITES["feat3d"]["kinds"] = [2, 3, 4, 9]
SUITES["feat3d"]["design_depth"] = {"quick": -1, "thorough": 0}
# 3x3x3 frames with a fixed menu of strokes (cubes, slab, column, single voxels): masks that extend over two
# planes along every axis, interior and border voxels; all five regionprops features enabled
SUITES["feat333"] = _seg_suite("feat333", [3, 3, 3], "D_3x3x3", [1, 1, 1], "S_111", depth=(1, 2),
                               sample={"quick": 60, "thorough": 1500})
# (the ellipsoid axes are left out: funtracks' `axes` raises "math domain error" on masks of separated voxels)
SUITES["feat333"]["cfg"]["enable"] = ["iou", "circ", "perim"]
SUITES["feat333"]["extra_act"] = ["iou", "circ", "perim"]
SUITES["feat333"]["cfg"]["max_stroke"] = 99
SUITES["feat333"]["kinds"] = [2, 3, 4, 9]
SUITES["feat333"]["seeds"] = "SeedsSeg333"
# enable / disable calls are FIRED from every state (bulk computation with other labels inside a mask's bounding box) but
# not used for exploration
SUITES["feat333"]["fire_kinds"] = [2, 3, 4, 9, 10]
SUITES["feat3d"]["fire_kinds"] = [2, 3, 4, 9, 10]
# feat333 states whose object is CONSTRUCTED anew before the alphabet is fired: every shape value comes from the bulk
# computation (all labels in the frame), every undo / redo from the incremental one (one label)
import copy as _copy  # noqa: E402
SUITES["feat333z"] = _copy.deepcopy(SUITES["feat333"])
SUITES["feat333z"]["cfg"]["name"] = "feat333z"
SUITES["feat333z"]["cfg"]["rebuild"] = {"mode": 0}
SUITES["feat333z"].pop("fire_kinds", None)
SUITES["feat333"]["design_depth"] = {"quick": -1, "thorough": -1}

# states in which a feature is registered and active but STALE (disable, edit, enable without recomputation):
# outside the domain of the other properties, so only C10 is decided there (design level: Inv_C10 alone)
import copy as _copy
for _s, _seeds in (("featns", "SeedsFeatNs"), ("feat13", "SeedsFeatSeg")):
    _d = _copy.deepcopy(SUITES[_s])
    _d["cfg"]["name"] = _s + "_s"
    _d["seeds"] = _seeds
    # (depth 0 in the quick tier: the model of EDITS made while the track-id feature is switched off is not precise -
    #  refinement drift, no property involved - so the stale seeds themselves are the states used)
    _d["depth"] = {"quick": 0, "thorough": 1}
    _d["design_depth"] = {"quick": 0, "thorough": 1}
    _d["design_inv"] = ["Inv_C10"]
    _d.pop("sample", None)
    SUITES[_s + "_s"] = _d
# construction from a copy of the reached graph (call 12: direct / from_tracks / FeatureDict, ids kept or removed)
for _s in ("struct3", "struct3c", "struct3p", "struct4s", "struct5s", "struct4", "seg13", "seg22", "seg3d", "seg13n", "seg6s"):
    SUITES[_s]["kinds"] = list(SUITES[_s]["kinds"]) + [12]

import hashlib

# spec-only cache (keyed by the content of every spec module and the constants); may be shared between checkouts
CACHE = os.environ.get("VERIF_CACHE_DIR") or os.path.join(ROOT, ".cache")


def module_closure(module):
    """module file + everything it EXTENDS / INSTANCEs that lives in /verif/spec"""
    import re
    seen, todo = [], [module if module.endswith(".tla") else module + ".tla"]
    while todo:
        m = todo.pop()
        if m in seen or not os.path.exists(os.path.join(tlc.SPEC_DIR, m)):
            continue
        seen.append(m)
        src = open(os.path.join(tlc.SPEC_DIR, m)).read()
        for line in re.findall(r"^\s*(?:EXTENDS|INSTANCE)\s+(.*)$", src, re.M):
            for name in re.split(r"[,\s]+", line.strip()):
                if name:
                    todo.append(name + ".tla")
    return sorted(seen)


def spec_hash(module="MC.tla"):
    h = hashlib.sha256()
    for f in module_closure(module):
        h.update(f.encode())
        h.update(open(os.path.join(tlc.SPEC_DIR, f), "rb").read())
    return h.hexdigest()[:16]


def cached(kind, keyobj, compute, module="MC.tla"):
    """Results that depend ONLY on /verif/spec (never on /repo): design-level runs and catalogues.
    Keyed by the content of every spec module and the constants."""
    key = hashlib.sha256(json.dumps([kind, spec_hash(module), keyobj], sort_keys=True).encode()).hexdigest()[:24]
    path = os.path.join(CACHE, f"{kind}_{key}.json")
    if os.path.exists(path):
        try:
            v = json.load(open(path))
            v["from_cache"] = True
            return v
        except Exception:  # noqa: BLE001
            pass
    v = compute()
    os.makedirs(CACHE, exist_ok=True)
    tmp = path + f".{os.getpid()}.tmp"
    json.dump(v, open(tmp, "w"))
    os.replace(tmp, path)
    v["from_cache"] = False
    return v


def harness_env():
    """Environment of the harness subprocesses. VERIF_FUNTRACKS_SRC (used only by the seeded-change
    tooling) points funtracks at a scratch worktree instead of /repo's working tree."""
    e = dict(os.environ)
    src = os.environ.get("VERIF_FUNTRACKS_SRC")
    if src:
        e["PYTHONPATH"] = src
    return e


def out_dir(kind):
    """evidence / replays directory (overridable for runs against seeded changes)"""
    d = os.environ.get("VERIF_OUT_DIR")
    return os.path.join(d, kind) if d else os.path.join(ROOT, kind)


REGS = {"C10": 20, "C01": 11, "C03": 13, "C04": 14, "C05": 15, "C06": 16, "C07": 17, "C08": 18, "C09": 19,
        "C11": 21, "C20": 30}


def mc_constants(suite, depth, emit, hist=False):
    c = dict(suite["tla"])
    c.update({"Fixes": tlc.tla_set(ALL_FIXES), "Depth": str(depth), "MaxId": str(suite["maxid"]),
              "Hist": "TRUE" if hist else "FALSE", "Kinds": tlc.tla_set(suite["kinds"]),
              "EmitCat": "TRUE" if emit else "FALSE"})
    c["RegCust"] = "TRUE" if suite["cfg"].get("reg_cust") else "FALSE"
    c["ExtraAct"] = tlc.tla_set(suite.get("extra_act", []))
    c["Seeds"] = "<- " + suite.get("seeds", "SeedsNone")
    c["MaxStroke"] = str(suite["cfg"].get("max_stroke", 0))
    return c


def design_run(suite, tier, scratch, prop, log):
    depth = suite["design_depth"][tier]
    if depth < 0:
        # the design-level check of this universe is left to the thorough tier (too slow for every change)
        return {"suite": suite["cfg"]["name"], "depth": depth, "states": 0, "transitions": 0, "wall_s": 0.0,
                "skipped": True, "from_cache": False, "constants": mc_constants(suite, 0, False)}
    return cached("design", [mc_constants(suite, depth, False), tier == "thorough"],
                  lambda: _design_run(suite, tier, scratch, prop, log))


def _design_run(suite, tier, scratch, prop, log):
    """Exhaustive model check of the DESIGN within the suite's bounds."""
    depth = suite["design_depth"][tier]
    cfgp = os.path.join(scratch, "design.cfg")
    inv = suite.get("design_inv", ["Inv_Valid", "Inv_All"])
    open(cfgp, "w").write(tlc.cfg_text(constants=mc_constants(suite, depth, False),
                                        invariants=inv, constraint="Bound", view="View"))
    # (no -coverage: with the large per-state transition sets it exhausts the heap)
    out, dt, rc = tlc.run_tlc("MC.tla", cfgp, scratch, workers=min(NCPU, 8), tag="design")
    st = tlc.stats(out)
    if not tlc.completed_ok(out) or st is None:
        fails = list(tlc.tuples(out, "FAIL"))[:5]
        log(out[-3000:])
        raise MachineryError(f"design-level model check failed ({suite['cfg']['name']}): {fails}")
    return {"suite": suite["cfg"]["name"], "depth": depth, "states": st["distinct"],
            "transitions": st["generated"], "wall_s": round(dt, 1),
            "constants": mc_constants(suite, depth, False)}


def catalogue(suite, tier, scratch, seed, log):
    depth = suite["depth"][tier]
    full = cached("cat", [mc_constants(suite, depth, True), suite.get("simulate", {}).get(tier)],
                  lambda: _catalogue(suite, tier, scratch, log))
    paths = sorted(full["paths"], key=len)      # shortest first (multi-worker emission is not in BFS order)
    total = len(paths)
    sample = suite.get("sample", {}).get(tier)
    if sample and total > sample:
        # the catalogue is emitted in BFS order: the shortest paths (initial state, seeds, their direct
        # successors) are ALWAYS kept - they are the states whose validity does not depend on earlier calls -
        # and the rest is sampled
        head = min(40, sample // 2)
        rnd = random.Random(seed)
        keep = list(range(head)) + sorted(rnd.sample(range(head, total), sample - head))
        paths = [paths[i] for i in keep]
    info = dict(full["info"])
    info.update({"catalogue_used": len(paths), "from_cache": full["from_cache"]})
    return paths, info


def _catalogue(suite, tier, scratch, log):
    depth = suite["depth"][tier]
    cfgp = os.path.join(scratch, "cat.cfg")
    open(cfgp, "w").write(tlc.cfg_text(constants=mc_constants(suite, depth, True),
                                        invariants=["Emit"], constraint="Bound", view="View"))
    out, dt, rc = tlc.run_tlc("MC.tla", cfgp, scratch, workers=suite.get("cat_workers", 1), tag="cat")
    st = tlc.stats(out)
    if not tlc.completed_ok(out) or st is None:
        log(out[-3000:])
        raise MachineryError("catalogue emission failed")
    paths, seen = [], set()
    for t in tlc.tuples(out, "CAT"):
        v = tlc.parse_int_tuples(t)
        p = v[0] if v else []
        k = json.dumps(p)
        if k not in seen:
            seen.add(k)
            paths.append(p)
    info = {"catalogue_states": len(paths), "depth": depth, "cat_generated": st["generated"], "wall_s": round(dt, 1)}
    sim = suite.get("simulate", {}).get(tier)
    if sim:
        # beyond the exhaustive bound: long random behaviours of the MODEL (tlc -simulate); every state on
        # them is a catalogue state as well (the harness replays the path and fires the alphabet from it)
        num, sdepth, keep = sim
        open(cfgp, "w").write(cfg_text_sim(suite, sdepth))
        out, dt2, rc = tlc.run_tlc("MC.tla", cfgp, scratch, workers=1, tag="sim",
                                   extra=["-simulate", f"num={num}", "-depth", str(sdepth), "-seed", "7"])
        longp = []
        for t in tlc.tuples(out, "CAT"):
            v = tlc.parse_int_tuples(t)
            p = v[0] if v else []
            k = json.dumps(p)
            if len(p) >= (2 * sdepth) // 3 and k not in seen:
                seen.add(k)
                longp.append(p)
        random.Random(11).shuffle(longp)
        paths += longp[:keep]
        info.update({"simulated_behaviours": num, "simulated_depth": sdepth, "simulated_states_used": len(longp[:keep])})
        info["catalogue_states"] = len(paths)
    return {"paths": paths, "info": info}


def cfg_text_sim(suite, sdepth):
    return tlc.cfg_text(constants=mc_constants(suite, sdepth, True), invariants=["Emit"], constraint="Bound", view="View")


def replay(suite, paths, scratch, nshards):
    cfgp = os.path.join(scratch, "hcfg.json")
    json.dump(suite["cfg"], open(cfgp, "w"))
    pp = os.path.join(scratch, "paths.json")
    json.dump(paths, open(pp, "w"))
    outdir = os.path.join(scratch, "rec")
    t0 = time.time()
    p = subprocess.run([PY, os.path.join(ROOT, "harness", "replay.py"), cfgp, pp, outdir, str(nshards),
                        json.dumps(suite.get("fire_kinds", suite["kinds"]))], stdout=subprocess.PIPE, stderr=subprocess.PIPE, text=True,
                       env=harness_env())
    if p.returncode != 0:
        raise MachineryError("replay harness failed:\n" + p.stderr[-3000:])
    info = json.loads(p.stdout.strip().splitlines()[-1])
    info["wall_s"] = round(time.time() - t0, 1)
    return sorted(glob.glob(os.path.join(outdir, "*.ndjson"))), info


def trace_check(suite, shards, scratch, props, log, module="TraceStep.tla"):
    """TLC over every shard (one single-worker TLC process per shard, in parallel)."""
    consts = dict(suite["tla"])
    consts.update({"Fixes": tlc.tla_set(ALL_FIXES), "Check": tlc.tla_set(sorted(props) + ["REF"])})
    cfgp = os.path.join(scratch, "trace.cfg")
    open(cfgp, "w").write(tlc.cfg_text(constants=consts, invariants=["Inv"], post="Post"))

    def one(sh):
        if os.path.getsize(sh) == 0:
            return sh, "", 0.0
        out, dt, rc = tlc.run_tlc(module, cfgp, scratch, workers=1, env={"TRACE_FILE": sh},
                                  tag=os.path.basename(sh))
        if not tlc.completed_ok(out):
            log(out[-3000:])
            raise MachineryError(f"TraceStep run failed on {sh}")
        return sh, out, dt

    res = {"fails": {p: [] for p in props}, "drift": [], "counts": {}, "records": 0, "skipped": 0}
    t0 = time.time()
    with ThreadPoolExecutor(max_workers=NCPU) as ex:
        for sh, out, dt in ex.map(one, shards):
            if not out:
                continue
            for t in tlc.tuples(out, "FAIL"):
                name = t.split('"')[3]
                idx = int(t.rstrip(">").rstrip().split(",")[-1])
                if name in res["fails"]:
                    res["fails"][name].append((sh, idx))
            for t in tlc.tuples(out, "DRIFT"):
                body = t[len('<<"DRIFT",'):]
                idx = int(body.split(",")[0])
                res["drift"].append((sh, idx, " ".join(body.split(",", 1)[1].split())))
            res["skipped"] += len(list(tlc.tuples(out, "SKIP")))
            for t in tlc.tuples(out, "COUNTS"):
                import re
                for k, v in re.findall(r"(\d+) :> (\d+)", t):
                    res["counts"][int(k)] = res["counts"].get(int(k), 0) + int(v)
    res["records"] = res["counts"].get(1, 0)
    res["wall_s"] = round(time.time() - t0, 1)
    return res


def get_record(shard, idx):
    with open(shard) as f:
        for n, line in enumerate(f, 1):
            if n == idx:
                return json.loads(line)
    return None
