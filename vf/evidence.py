from __future__ import annotations

import json
import os

ROOT = os.path.dirname(os.path.dirname(os.path.abspath(__file__)))


def write(prop, tier, seed, level, coverage, wall_s, violations, assumptions):
    edir = os.path.join(os.environ["VERIF_OUT_DIR"], "evidence") if os.environ.get("VERIF_OUT_DIR") \
        else os.path.join(ROOT, "evidence")
    os.makedirs(edir, exist_ok=True)
    ev = {"property_id": prop, "tier": tier, "seed": int(seed), "level": level,
          "coverage": coverage, "assumptions": assumptions, "wall_s": round(float(wall_s), 2),
          "violations": int(violations)}
    p = os.path.join(edir, f"{prop}.json")
    with open(p + ".tmp", "w") as f:
        json.dump(ev, f, indent=1, sort_keys=False)
    os.replace(p + ".tmp", p)
    return p


def known_findings():
    p = os.path.join(ROOT, "known_findings.json")
    if not os.path.exists(p):
        return []
    return json.load(open(p))
