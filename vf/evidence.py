from __future__ import annotations

import json
import os

ROOT = os.path.dirname(os.path.dirname(os.path.abspath(__file__)))


def write(prop, tier, seed, level, coverage, wall_s, violations, assumptions):
    os.makedirs(os.path.join(ROOT, "evidence"), exist_ok=True)
    ev = {"property_id": prop, "tier": tier, "seed": int(seed), "level": level,
          "coverage": coverage, "assumptions": assumptions, "wall_s": round(float(wall_s), 2),
          "violations": int(violations)}
    p = os.path.join(ROOT, "evidence", f"{prop}.json")
    with open(p + ".tmp", "w") as f:
        json.dump(ev, f, indent=1, sort_keys=False)
    os.replace(p + ".tmp", p)
    return p


def known_findings():
    p = os.path.join(ROOT, "known_findings.json")
    if not os.path.exists(p):
        return []
    return json.load(open(p))
