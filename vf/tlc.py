"""Running TLC and parsing what it prints."""
from __future__ import annotations

import os
import re
import subprocess
import time

SPEC_DIR = os.path.join(os.path.dirname(os.path.dirname(os.path.abspath(__file__))), "spec")


JAR = "/opt/veriftools/tla/tla2tools.jar:/opt/veriftools/tla/CommunityModules-deps.jar"


class MachineryError(Exception):
    pass


def cfg_text(spec="Spec", constants=None, invariants=(), constraint=None, view=None,
             post=None, properties=()):
    lines = [f"SPECIFICATION {spec}", "CONSTANTS"]
    for k, v in (constants or {}).items():
        lines.append(f"  {k} {v}" if v.startswith("<-") else f"  {k} = {v}")
    if constraint:
        lines.append(f"CONSTRAINT {constraint}")
    if view:
        lines.append(f"VIEW {view}")
    for i in invariants:
        lines.append(f"INVARIANT {i}")
    for p in properties:
        lines.append(f"PROPERTY {p}")
    if post:
        lines.append(f"POSTCONDITION {post}")
    lines.append("CHECK_DEADLOCK FALSE")
    return "\n".join(lines) + "\n"


def tla_set(xs):
    return "{" + ", ".join(f'"{x}"' if isinstance(x, str) else str(x) for x in xs) + "}"


def run_tlc(module, cfg_path, scratch, workers=1, env=None, timeout=3600, extra=(), tag="tlc"):
    """Run TLC; returns (stdout, seconds). Raises MachineryError on a TLC crash."""
    meta = os.path.join(scratch, f"meta_{tag}")
    if workers == 1:
        # many single-worker TLC processes run side by side: keep each JVM small and quiet
        cmd = ["java", "-XX:+UseSerialGC", "-Xms256m", "-Xmx3g", "-XX:TieredStopAtLevel=4",
               "-XX:CICompilerCount=2", "-cp", JAR, "tlc2.TLC"]
    else:
        cmd = ["java", "-XX:+UseParallelGC", f"-XX:ParallelGCThreads={min(workers, 8)}", "-Xmx24g",
               "-cp", JAR, "tlc2.TLC"]
    cmd += ["-workers", str(workers), "-metadir", meta, "-noGenerateSpecTE",
            "-config", cfg_path, *extra, module]
    e = dict(os.environ)
    if env:
        e.update(env)
    t0 = time.time()
    try:
        p = subprocess.run(cmd, cwd=SPEC_DIR, env=e, stdout=subprocess.PIPE, stderr=subprocess.STDOUT,
                           text=True, timeout=timeout)
    except subprocess.TimeoutExpired as ex:
        raise MachineryError(f"TLC timed out after {timeout}s: {' '.join(cmd)}") from ex
    out = p.stdout
    dt = time.time() - t0
    subprocess.run(["rm", "-rf", meta])
    return out, dt, p.returncode


STATS = re.compile(r"(\d+) states generated (\d+) distinct states found (\d+) states left on queue")


def stats(out):
    m = None
    for m in STATS.finditer(out.replace(",", "")):
        pass
    if not m:
        return None
    return {"generated": int(m.group(1)), "distinct": int(m.group(2)), "queue": int(m.group(3))}


def completed_ok(out):
    return "Model checking completed. No error has been found." in out


def tuples(out, head):
    """Yield the text of every printed TLA+ tuple that starts with <<"head", ...>>
    (handles multi-line pretty printing and interleaving by bracket matching)."""
    key = f'<<"{head}"'
    text = re.sub(r'<<\s+"', '<<"', out)
    i = 0
    while True:
        j = text.find(key, i)
        if j < 0:
            return
        depth, k = 0, j
        while k < len(text):
            if text.startswith("<<", k):
                depth += 1; k += 2; continue
            if text.startswith(">>", k):
                depth -= 1; k += 2
                if depth == 0:
                    break
                continue
            k += 1
        yield text[j:k]
        i = k


def parse_int_tuples(t):
    """'<<"CAT", <<<<1,2>>, <<3,4>>>>>>' -> nested python lists of ints (strings dropped)"""
    t = re.sub(r'"[^"]*"\s*,?', "", t)
    t = t.replace("<<", "[").replace(">>", "]")
    t = re.sub(r"\s+", "", t)
    t = t.replace("[,", "[")
    import json
    return json.loads(t)
