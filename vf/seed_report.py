"""Collect detection results of the seeded changes (from `vp run` logs or local runs) into
seeded/<id>/meta.json and render the table for DESIGN.md §0.6."""
import glob
import json
import os
import re
import sys

ROOT = os.path.dirname(os.path.dirname(os.path.abspath(__file__)))
LINE = re.compile(r"^(C\d\d_\d) (C\d\d) exit (\d+) violations (\d+) drift (\d+)")


def absorb(logs):
    for log in logs:
        for line in open(log, errors="replace"):
            m = LINE.match(line.strip())
            if not m:
                continue
            mid, prop, ex, v, d = m.group(1), m.group(2), int(m.group(3)), int(m.group(4)), int(m.group(5))
            mp = os.path.join(ROOT, "seeded", mid, "meta.json")
            if not os.path.exists(mp):
                continue
            meta = json.load(open(mp))
            meta.setdefault("detected_by", {})[prop] = {"exit": ex, "violations": v, "drift_lines": d, "source": os.path.basename(os.path.dirname(log)) or log}
            json.dump(meta, open(mp, "w"), indent=1)


def table():
    rows = ["| id | breaks | needs to manifest (summary) | detected by (quick tier) |", "|---|---|---|---|"]
    for mp in sorted(glob.glob(os.path.join(ROOT, "seeded", "*", "meta.json"))):
        meta = json.load(open(mp))
        need = " ".join(meta.get("needs_to_manifest", "").split())
        need = re.sub(r"[|`#*]", "", need)[:170]
        det = []
        for p, r in sorted(meta.get("detected_by", {}).items()):
            if r["exit"] == 1:
                det.append(f"**{p}** VIOLATION ({r['violations']})")
            elif r["exit"] == 0 and r.get("drift_lines"):
                det.append(f"{p}: DRIFT only")
            elif r["exit"] == 0:
                det.append(f"{p}: not detected")
            else:
                det.append(f"{p}: machinery error")
        note = meta.get("note", "")
        rows.append(f"| {meta['id']} | {meta['breaks_property']} | {need} | {'; '.join(det) or 'not run'}{' - ' + note if note else ''} |")
    return "\n".join(rows)


if __name__ == "__main__":
    if len(sys.argv) > 1 and sys.argv[1] == "absorb":
        absorb(sys.argv[2:])
    print(table())
