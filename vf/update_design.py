"""Regenerates the seeded-change table of DESIGN.md §0.6 from seeded/*/meta.json."""
import os
import re

from . import seed_report

ROOT = os.path.dirname(os.path.dirname(os.path.abspath(__file__)))
INTRO = """Each change below was written by a fresh sub-agent that saw only the text of one property and a scratch
worktree (nothing from /verif), compiles, passes the whole existing suite (431 tests) and comes with a
demonstration that fails with it and passes without it; all of that was re-confirmed in a scratch worktree
(`python3 -m vf.seed_tool confirm`) before the change was kept under `/verif/seeded/<id>/`. "detected by"
is the outcome of the property's QUICK check with the change applied (`python3 -m vf.seed_tool run`), in a
scratch worktree of /repo HEAD (same effect as `git -C /repo apply` ... `git checkout`).

"""


def main():
    p = os.path.join(ROOT, "DESIGN.md")
    s = open(p).read()
    table = seed_report.table()
    s = re.sub(r"<!-- seeded-table-begin -->.*?<!-- seeded-table-end -->",
               "<!-- seeded-table-begin -->\n" + INTRO + table + "\n<!-- seeded-table-end -->", s, flags=re.S)
    open(p, "w").write(s)


if __name__ == "__main__":
    main()
