"""Regenerates the seeded-change table of DESIGN.md §0.6 from seeded/*/meta.json."""
import os
import re

from . import seed_report

ROOT = os.path.dirname(os.path.dirname(os.path.abspath(__file__)))
INTRO = """Each change below was written by a fresh sub-agent that saw only the text of one property and a scratch
worktree (nothing from /verif), compiles, passes the whole existing suite (431 tests) and comes with a
demonstration that fails with it and passes without it; all of that was re-confirmed in a scratch worktree
(`python3 -m vf.seed_tool confirm`) before the change was kept under `/verif/seeded/<id>/`. "detected by"
is the outcome of the property's QUICK check with the change applied (`python3 -m vf.seed_tool run`), in a
scratch worktree of /repo HEAD (same effect as `git -C /repo apply` ... `git checkout`).

"""


PRED = {
    "C01": "Props.P_C01 (ObsEq pre/undo, post/redo; primitives under PrimPre) + TraceHist Walk",
    "C02": "MCHist (AtTimeline, RetUndo/RetRedo, NoopAtEnds, Grows) + TraceHist Walk / Lock",
    "C03": "Props.P_C03 (Forest, Conflicting => refused, Removable) + session invariant",
    "C04": "Props.P_C04 (TidOK, Untouched frame clause; P_C04Ctor after construction) + session invariant",
    "C05": "Props.P_C05 (LidOK, Untouched frame clause; P_C05Ctor after construction) + session invariant + Import.LidsOK (construction by import)",
    "C06": "Props.P_C06 + TraceStep.P_C06R (LookupOK, NoDupLookups, QueriesOK, NewIdsOK) + session-final queries",
    "C07": "Props.P_C07 + TraceStep.P_C07R (SegOK, painted-array clauses, pixel query, bit-exact undo)",
    "C08": "Props.P_C08 (AreaOK, PosOK recomputed as rationals; ShapeOK via from-scratch digests)",
    "C09": "Props.P_C09 (IoUOK recomputed as rationals; incremental and bulk)",
    "C10": "Props.P_C10 (RegistryOK, KeyError clause, reference values after enable, SameFeature, ManagedKey)",
    "C11": "Props.P_C11 (FullEq(post, pre), no emission) + TraceStep.P_C11R (lookup keys)",
    "C12": "Import.ImportOK / TraceImport, GeffMap.MapOK / TraceGeffMap, MapValid.MapOK / TraceMapValid",
    "C13": "Relabel.RelabelOK / TraceRelabel",
    "C14": "TraceExport.RoundTrip",
    "C15": "TraceExport.SubsetOK (Anc closure)",
    "C16": "TraceExport.Unmodified (incl. registry metadata digest)",
    "C17": "NameMap.MapOK (Partition, ExactKeys) / TraceNameMap",
    "C18": "CandGraph.Inv_Edges / TraceCandGraph, TraceCandSeg (NodesOK, EdgesOK)",
    "C19": "Labels.UniqueOK / TraceLabels, TrackLabels.RelabelOK / TraceTrackLabels",
    "C20": "Props.P_C20 + TraceHist.WalkEmit",
}


def coverage_table():
    import glob
    import json
    rows = ["| property | predicate(s) | design-level states / transitions | real records (non-trivial) | wall (quick) |",
            "|---|---|---|---|---|"]
    for f in sorted(glob.glob(os.path.join(ROOT, "evidence", "C*.json"))):
        e = json.load(open(f))
        c = e["coverage"]
        rows.append(f"| {e['property_id']} | {PRED.get(e['property_id'], '')} | {c.get('states')} / {c.get('transitions')} | "
                    f"{c.get('traces_validated_against_impl')} ({c.get('distinct_nontrivial')}) | {round(e['wall_s'])} s |")
    return "\n".join(rows)


def main():
    p = os.path.join(ROOT, "DESIGN.md")
    s = open(p).read()
    s = re.sub(r"<!-- coverage-table-begin -->.*?<!-- coverage-table-end -->",
               "<!-- coverage-table-begin -->\n" + coverage_table() + "\n<!-- coverage-table-end -->", s, flags=re.S)
    table = seed_report.table()
    s = re.sub(r"<!-- seeded-table-begin -->.*?<!-- seeded-table-end -->",
               "<!-- seeded-table-begin -->\n" + INTRO + table + "\n<!-- seeded-table-end -->", s, flags=re.S)
    open(p, "w").write(s)


if __name__ == "__main__":
    main()
