"""Per-property orchestration for the editing-core properties."""
from __future__ import annotations

import json
import os
import shutil
import sys
import tempfile
import time

from . import coreflow as cf
from . import evidence, tlc
from .tlc import MachineryError

ROOT = cf.ROOT

# which suites decide which property, per tier
PLAN = {
    "C01": {"quick": ["struct3", "struct4s", "struct5s", "struct3z", "struct3p", "seg13z", "prims3", "primseg", "seg6s", "feat333z"],
            "thorough": ["struct3", "struct4s", "struct5s", "struct3c", "struct3z", "struct3p", "struct4", "seg13", "seg13z", "seg22", "seg3d", "feat13",
                         "prims3", "primseg", "struct3k", "feat333z", "struct3w"]},
    "C03": {"quick": ["struct3", "struct4s", "struct5s", "struct4n0", "struct3w"], "thorough": ["struct3", "struct4s", "struct5s", "struct4", "seg13", "struct4n0", "struct3k", "struct3w"]},
    "C04": {"quick": ["struct3", "struct4s", "struct5s", "struct4n0", "struct3zf", "struct3zc", "struct3k"], "thorough": ["struct3", "struct4s", "struct5s", "struct4", "seg13", "struct4n0", "struct3zf", "struct3zc", "struct3k", "struct3w"]},
    "C05": {"quick": ["struct3", "struct4s", "struct5s", "struct4n0", "struct3zf", "struct3zc"], "thorough": ["struct3", "struct4s", "struct5s", "struct4", "seg13", "struct4n0", "struct3zf", "struct3zc", "struct3k", "struct3w"]},
    "C06": {"quick": ["struct3", "struct4s", "struct5s", "struct4n0", "struct3zf", "struct3zc", "struct3w"], "thorough": ["struct3", "struct4s", "struct5s", "struct4", "seg13", "struct4n0", "struct3zf", "struct3zc", "struct3k", "struct3w"]},
    "C07": {"quick": ["seg13", "seg3d", "seg6s", "seg13w", "seg13v"], "thorough": ["seg13", "seg22", "seg3d", "seg13n", "seg6s", "seg13w", "seg13v"]},
    "C08": {"quick": ["seg13", "seg3d", "feat13", "feat3d", "feat333", "primseg"],
            "thorough": ["seg13", "seg22", "seg3d", "seg13n", "feat13", "feat22", "feat3d", "feat333", "primseg", "seg13w"]},
    # seg13z: tracks rebuilt from the graph, IoU enabled in bulk at that point; feat13: enable / disable at any point
    "C09": {"quick": ["seg13", "seg3d", "seg13z", "feat13", "seg5s", "seg13w"], "thorough": ["seg13", "seg22", "seg3d", "seg13n", "seg13z", "feat13", "feat22", "seg5s", "seg13w"]},
    "C10": {"quick": ["featns", "feat13", "seg5s", "featns_s", "feat13_s"], "thorough": ["featns", "feat13", "feat22", "seg5s", "featns_s", "feat13_s"]},
    "C11": {"quick": ["struct3", "struct4s", "struct5s", "struct3p", "struct3n0", "seg13", "seg6s", "struct3k"], "thorough": ["struct3", "struct4s", "struct5s", "struct3p", "struct3c", "struct4", "seg13", "seg22", "seg6s", "struct3k", "struct3w"]},
    "C20": {"quick": ["struct3", "struct4s", "struct5s", "struct3n0", "seg13", "seg6s"], "thorough": ["struct3", "struct4s", "struct5s", "struct4", "seg13", "struct3k", "struct3w"]},
}

# construction by import (C05: a source lineage column, consistent or not): the import part of C12, whose trace module
# also evaluates LidsOK on the imported solution; (part, label of its FAIL lines)
def _io_parts():
    from . import io_props
    imp = [p for p in io_props.C12_PARTS if p["name"] == "import_df"][0]
    return {"C05": [(imp, "C12")]}


IO_PARTS = _io_parts()

# random sessions in which TLC evaluates the property's state invariant after every call
SESSION_SUITES = {"C03": ("struct4", "struct3", "struct5"), "C04": ("struct4", "struct3", "struct5"),
                  "C05": ("struct4", "struct3", "struct5"), "C06": ("struct4", "struct3", "struct5"), "C07": ("seg13", "seg3d"), "C08": ("seg13", "seg3d"), "C09": ("seg13", "seg3d"),
                  "C20": ("struct4", "struct3", "seg13"), "C01": ("struct4", "struct5", "seg13")}

NONTRIVIAL_RULE = {
    "C01": "accepted edit from a state satisfying all state invariants, followed by undo() and redo()",
    "C03": "call that would create a merge / third child / non-forward edge, or accepted call that changes the edge set",
    "C04": "accepted call that changes some node's track id",
    "C05": "accepted call that changes some node's lineage id",
    "C06": "accepted call that changes the track lookup",
    "C07": "accepted call that changes the segmentation array",
    "C08": "accepted call that changes the segmentation array",
    "C09": "accepted call that changes the segmentation array of tracks with at least one edge",
    "C10": "enable/disable call, attribute update of a managed key, or accepted edit while some available feature is disabled",
    "C11": "refused edit call (any exception)",
    "C20": "edit call, accepted or refused (emission list recorded through the public refresh signal)",
}


def short(rec):
    return {"path": rec.get("path"), "call": rec["c"], "ok": rec["ok"], "err": rec["err"],
            "emit": rec["emit"], "post_edges": rec["post"]["E"], "post_tid": rec["post"]["tid"],
            "post_lid": rec["post"]["lid"]}


def run(prop, tier, seed, replay_path=None):
    t0 = time.time()
    scratch_root = tempfile.mkdtemp(prefix=f"vf_{prop}_")
    logs = []
    log = logs.append
    violations, drift_all, samples = [], [], []
    session_viols, session_info = [], []
    design, cats, reps, traces = [], [], [], []
    total_records = nontrivial = 0
    try:
        for sname in PLAN[prop][tier]:
            suite = cf.SUITES[sname]
            scratch = os.path.join(scratch_root, sname)
            os.makedirs(scratch)
            design.append(cf.design_run(suite, tier, scratch, prop, log))
            paths, cinfo = cf.catalogue(suite, tier, scratch, seed, log)
            cinfo["suite"] = sname
            cats.append(cinfo)
            shards, rinfo = cf.replay(suite, paths, scratch, cf.NCPU)
            rinfo["suite"] = sname
            reps.append(rinfo)
            res = cf.trace_check(suite, shards, scratch, [prop], log)
            traces.append({"suite": sname, "records": res["records"], "skipped": res["skipped"],
                           "nontrivial": res["counts"].get(cf.REGS[prop], 0),
                           "drift": len(res["drift"]), "wall_s": res["wall_s"]})
            total_records += res["records"]
            nontrivial += res["counts"].get(cf.REGS[prop], 0)
            if res["records"] != rinfo["records"]:
                raise MachineryError(f"TLC saw {res['records']} records, harness wrote {rinfo['records']}")
            for sh, idx in res["fails"][prop]:
                rec = cf.get_record(sh, idx)
                violations.append((sname, rec))
            for sh, idx, what in res["drift"][:20]:
                rec = cf.get_record(sh, idx)
                drift_all.append({"suite": sname, "path": rec.get("path"), "call": rec["c"], "what": what})
            # a few records verbatim
            if shards:
                for k in (1, 97, 1999):
                    r = cf.get_record(shards[0], k)
                    if r:
                        samples.append(short(r))
        # state invariants along whole sessions (history-dependent behaviour: several undos, then edits)
        if prop in SESSION_SUITES:
            from . import hist_check
            sv, session_info = hist_check.session_phase(prop, tier, seed, scratch_root, log, SESSION_SUITES[prop])
            for v in sv:
                session_viols.append(v)
        # "after construction" by IMPORT: the pipeline part(s) whose trace module also evaluates this property
        io_viols, io_info = [], []
        for part, label in IO_PARTS.get(prop, []):
            from . import io_check
            if tier not in part.get("tiers", ("quick", "thorough")):
                continue
            sc = os.path.join(scratch_root, "io_" + part["name"])
            os.makedirs(sc)
            d = io_check.run_design(part, tier, sc, log)
            shards, info = io_check.run_real(part, tier, seed, sc, d)
            res = io_check.run_trace(part, tier, shards, sc, log, label)
            if res["counts"][0] != info["records"]:
                raise MachineryError(f"part {part['name']}: TLC saw {res['counts'][0]} records, harness wrote {info['records']}")
            info.update({"part": part["name"], "drift": len(res["drift"])})
            io_info.append(info)
            total_records += res["counts"][0]
            for sh, idx in res["fails"]:
                io_viols.append((part["name"], cf.get_record(sh, idx)))
    except MachineryError as e:
        print(f"MACHINERY-ERROR property={prop}: {e}")
        for l in logs[-2:]:
            print(l)
        shutil.rmtree(scratch_root, ignore_errors=True)
        return 2
    # ---- verdict ----------------------------------------------------------------------
    rdir = os.path.join(cf.out_dir("replays"), prop)
    n_viol = 0
    shutil.rmtree(rdir, ignore_errors=True)
    if violations:
        os.makedirs(rdir, exist_ok=True)
        seen = set()
        for sname, rec in violations:
            sig = json.dumps([sname, rec["c"], rec["pre"]["E"], rec["pre"]["time"]])
            if sig in seen:
                continue
            seen.add(sig)
            n_viol += 1
            if n_viol <= 25:
                path = os.path.join(rdir, f"{sname}_{n_viol}.json")
                json.dump({"property": prop, "suite": sname, "record": rec}, open(path, "w"))
                print(f"VIOLATION property={prop} replay={path}")
    seen_s = set()
    for v in session_viols:
        sig = json.dumps(v["calls"])
        if sig in seen_s:
            continue
        seen_s.add(sig)
        n_viol += 1
        if n_viol <= 30:
            os.makedirs(rdir, exist_ok=True)
            path = os.path.join(rdir, f"session_{v['suite']}_{len(seen_s)}.json")
            json.dump({"property": prop, "suite": v["suite"], "failing_step": v["step"], "session": v["session"]},
                      open(path, "w"))
            print(f"VIOLATION property={prop} replay={path}")
    for pname, rec in io_viols:
        n_viol += 1
        if n_viol <= 30:
            os.makedirs(rdir, exist_ok=True)
            path = os.path.join(rdir, f"io_{pname}_{n_viol}.json")
            json.dump({"property": prop, "part": pname, "record": rec}, open(path, "w"))
            print(f"VIOLATION property={prop} replay={path}")
    for d in drift_all[:10]:
        print(f"DRIFT property={prop} suite={d['suite']} call={d['call']} what={d['what']} path={d['path']}")
    cov = {
        "states": sum(d["states"] for d in design),
        "transitions": sum(d["transitions"] for d in design),
        "traces_validated_against_impl": total_records,
        "evaluations": total_records,
        "distinct_nontrivial": nontrivial,
        "rule": "one record per (distinct real state reached by a catalogue path, call of the full alphabet); "
                "non-trivial = " + NONTRIVIAL_RULE[prop],
        "samples": samples[:6],
        "exhaustive": all(c["catalogue_used"] == c["catalogue_states"] for c in cats),
        "design_level": design, "catalogue": cats, "replay": reps, "trace_check": traces,
        "sessions": session_info, "import_construction": io_info,
        "drift": drift_all[:20], "drift_count": sum(t["drift"] for t in traces),
        "refinement_holds": sum(t["drift"] for t in traces) == 0,
    }
    assumptions = [
        "the projection harness/core.py reads the real object faithfully (it judges nothing)",
        "universe bounds of the suites (N nodes, T frames, path depth); ids compared up to order-preserving renaming in the catalogue",
        "TLC evaluates Props.tla predicates correctly; skimage/networkx behave as documented",
    ]
    evidence.write(prop, tier, seed, "model_checking", cov, time.time() - t0, n_viol, assumptions)
    shutil.rmtree(scratch_root, ignore_errors=True)
    print(f"property={prop} tier={tier} records={total_records} nontrivial={nontrivial} "
          f"violations={n_viol} drift={cov['drift_count']} wall={time.time() - t0:.0f}s")
    return 1 if n_viol else 0
