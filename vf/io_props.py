"""Parts of the pipeline properties (C12..C19)."""
from __future__ import annotations

import json
import re

from . import io_check, tlc

FIXES_IO = ["F11", "F12", "F13", "F14", "F15", "F16", "F17"]


def parse_tla(t):
    """generic TLA+ value text (tuples, sets, ints, strings) -> python lists"""
    t = re.sub(r'"([^"]*)"', lambda m: json.dumps(m.group(1)), t)
    t = t.replace("<<", "[").replace(">>", "]").replace("{", "[").replace("}", "]")
    return json.loads(t)


def parse_tl(t):
    v = parse_tla(t)
    return {"si": v[1][0], "nd": v[2], "E": v[3]}


C19_PARTS = [
    {"name": "unique", "driver": "labels_unique",
     "design": {"module": "Labels.tla", "invariants": ["Inv_Unique", "Inv_Model"],
                "consts": {"quick": {"F": "3", "PX": "2", "L": "2", "Fixes": tlc.tla_set(["F15"])},
                           "thorough": {"F": "4", "PX": "2", "L": "2", "Fixes": tlc.tla_set(["F15"])}}},
     "args": {"quick": {"F": 3, "PX": 2, "L": 2}, "thorough": {"F": 4, "PX": 2, "L": 2, "H": 2}},
     "trace": {"module": "TraceLabels.tla",
               "consts": {"quick": {"F": "3", "PX": "2", "L": "2", "Fixes": tlc.tla_set(["F15"])},
                          "thorough": {"F": "4", "PX": "2", "L": "2", "Fixes": tlc.tla_set(["F15"])}}}},
    {"name": "unique_multiseg", "driver": "labels_unique", "tiers": ("quick",),
     "design": {"module": "Labels.tla", "invariants": ["Inv_Unique", "Inv_Model"],
                "consts": {"F": "4", "PX": "1", "L": "2", "Fixes": tlc.tla_set(["F15"])}},
     "args": {"F": 4, "PX": 1, "L": 2, "H": 2},
     "trace": {"module": "TraceLabels.tla", "consts": {"F": "4", "PX": "1", "L": "2", "Fixes": tlc.tla_set(["F15"])}}},
    # large label values in a narrow unsigned array: the running offset exceeds the input's dtype range
    {"name": "unique_u8", "driver": "labels_unique",
     "args": {"F": 3, "PX": 2, "L": 2, "labelmap": [0, 100, 200], "dtype": "uint8"},
     "trace": {"module": "TraceLabels.tla", "consts": {"F": "3", "PX": "2", "L": "2", "Fixes": tlc.tla_set(["F15"])}}},
    {"name": "by_track", "driver": "track_labels",
     "design": {"module": "TrackLabels.tla", "invariants": ["Emit"], "workers": 1, "emit": "IN", "emit_parse": parse_tl,
                "consts": {"T": "3", "K": "2", "PX": "2"}},
     "args": {},
     "trace": {"module": "TraceTrackLabels.tla", "consts": {"T": "3", "K": "2", "PX": "2"}}},
]

C18_PARTS = [
    {"name": "points", "driver": "cand_points",
     "design": {"module": "CandGraph.tla", "invariants": ["Inv_Edges"],
                "consts": {"quick": {"T": "4", "D": "2", "Fixes": tlc.tla_set(["F14"])},
                           "thorough": {"T": "5", "D": "2", "Fixes": tlc.tla_set(["F14"])}}},
     "args": {"quick": {"T": 4, "D": 2, "shuffle": True}, "thorough": {"T": 5, "D": 2, "shuffle": True}},
     "trace": {"module": "TraceCandGraph.tla",
               "consts": {"quick": {"T": "4", "D": "2", "Fixes": tlc.tla_set(["F14"])},
                          "thorough": {"T": "5", "D": "2", "Fixes": tlc.tla_set(["F14"])}}}},
    {"name": "points_d5", "driver": "cand_points",
     "design": {"module": "CandGraph.tla", "invariants": ["Inv_Edges"],
                "consts": {"T": "4", "D": "5", "Fixes": tlc.tla_set(["F14"])}},
     "args": {"T": 4, "D": 5, "scales": [[1, 1], [2, 1]]},
     "trace": {"module": "TraceCandGraph.tla", "consts": {"T": "4", "D": "5", "Fixes": tlc.tla_set(["F14"])}}},
    {"name": "points_d3", "driver": "cand_points", "tiers": ("thorough",),
     "design": {"module": "CandGraph.tla", "invariants": ["Inv_Edges"],
                "consts": {"T": "4", "D": "3", "Fixes": tlc.tla_set(["F14"])}},
     "args": {"T": 4, "D": 3},
     "trace": {"module": "TraceCandGraph.tla", "consts": {"T": "4", "D": "3", "Fixes": tlc.tla_set(["F14"])}}},
    {"name": "seg", "driver": "cand_seg",
     "args": {"quick": {"T": 3, "PX": 3, "variants": [[1, 1], [2, 2]]},
              "thorough": {"T": 3, "PX": 3, "variants": [[1, 1], [2, 1], [1, 2], [2, 2], [3, 2]]}},
     "trace": {"module": "TraceCandSeg.tla", "consts": {"T": "3", "PX": "3"}}},
    # the same arrays with large, non-contiguous label values in a 16-bit array
    {"name": "seg_biglabels", "driver": "cand_seg",
     "args": {"quick": {"T": 3, "PX": 3, "variants": [[1, 1]], "labelmap": [0, 64, 1024, 256, 512, 3072, 4096]},
              "thorough": {"T": 3, "PX": 3, "variants": [[1, 1], [2, 2]], "labelmap": [0, 64, 1024, 256, 512, 3072, 4096]}},
     "trace": {"module": "TraceCandSeg.tla", "consts": {"T": "3", "PX": "3"}}},
    # label values beyond 16 bits in a 32-bit signed array (packed label pairs overflow 32 bits)
    {"name": "seg_int32labels", "driver": "cand_seg",
     "args": {"T": 3, "PX": 3, "variants": [[1, 1]], "dtype": "int32",
              "labelmap": [0, 70000, 70002, 65536, 131072, 99999, 100003]},
     "trace": {"module": "TraceCandSeg.tla", "consts": {"T": "3", "PX": "3"}}},
    # five frames (a gap with two populated frames on either side: 0, 1, _, 3, 4), two grid positions / one pixel
    {"name": "points_t5", "driver": "cand_points", "tiers": ("quick",),
     "args": {"T": 5, "D": 2, "npos": 2, "shuffle": True},
     "trace": {"module": "TraceCandGraph.tla", "consts": {"T": "5", "D": "2", "Fixes": tlc.tla_set(["F14"])}}},
    # 3D + t: the pixel row lies along z, with a z scale (first occupied plane > 0, anisotropic spacing)
    {"name": "seg_zaxis", "driver": "cand_seg",
     "args": {"T": 3, "PX": 3, "variants": [[2, 2], [1, 1]], "axis": "z"},
     "trace": {"module": "TraceCandSeg.tla", "consts": {"T": "3", "PX": "3"}}},
    {"name": "seg_t5", "driver": "cand_seg",
     "args": {"T": 5, "PX": 1, "variants": [[1, 1]]},
     "trace": {"module": "TraceCandSeg.tla", "consts": {"T": "5", "PX": "1"}}},
]

def _nm_part(table, req, qlen, tlen, tiers=("quick", "thorough")):
    c = lambda n: {"MaxLen": str(n), "Table": f'"{table}"', "ReqName": f'"{req}"', "Fixes": tlc.tla_set(["F13"])}
    return {"name": f"namemap_{table}_{req}", "driver": "namemap", "tiers": tiers,
            "design": {"module": "NameMap.tla", "invariants": ["Inv_Map", "Inv_Left"],
                       "consts": {"quick": c(min(qlen, 3 if req != "EDGE" else 4)), "thorough": c(3)}},
            "args": {"quick": {"maxlen": qlen, "table": table, "req": req},
                     "thorough": {"maxlen": tlen, "table": table, "req": req}},
            "trace": {"module": "TraceNameMap.tla", "consts": {"quick": c(qlen), "thorough": c(tlen)}}}


C17_PARTS = [_nm_part("T2", "CSV", 3, 4), _nm_part("T3", "GEFF", 3, 4),
             _nm_part("T3", "CSV", 2, 3), _nm_part("T2", "GEFF", 2, 3),
             _nm_part("TE", "EDGE", 4, 5)]      # infer_edge_name_map

_RL = lambda T, PX, L, S, M: {"T": str(T), "PX": str(PX), "L": str(L), "S": str(S), "MaxNode": str(M)}
C13_PARTS = [
    {"name": "relabel_fn", "driver": "relabel",
     "design": {"module": "Relabel.tla", "invariants": ["Inv_Relabel"],
                "consts": {"quick": _RL(2, 2, 2, 2, 2), "thorough": _RL(2, 2, 3, 2, 3)}},
     "args": {"quick": {"T": 2, "PX": 2, "L": 3, "S": 2, "MaxNode": 3},
              "thorough": {"T": 2, "PX": 3, "L": 3, "S": 2, "MaxNode": 3}},
     "trace": {"module": "TraceRelabel.tla", "consts": {"quick": _RL(2, 2, 3, 2, 3), "thorough": _RL(2, 3, 3, 2, 3)}}},
    # end to end through tracks_from_df(df, segmentation): graph and array shift together
    {"name": "relabel_df", "driver": "relabel",
     "args": {"quick": {"T": 2, "PX": 2, "L": 3, "S": 2, "MaxNode": 3, "via": "df", "cap": 4},
              "thorough": {"T": 2, "PX": 2, "L": 3, "S": 2, "MaxNode": 3, "via": "df", "cap": 40}},
     "trace": {"module": "TraceRelabel.tla", "consts": _RL(2, 2, 3, 2, 3)}},
    # one builder used twice: prepare(table, another array) then build(table, the array)
    {"name": "relabel_builder", "driver": "relabel",
     "args": {"quick": {"T": 2, "PX": 2, "L": 3, "S": 2, "MaxNode": 3, "via": "builder", "cap": 3},
              "thorough": {"T": 2, "PX": 2, "L": 3, "S": 2, "MaxNode": 3, "via": "builder", "cap": 30}},
     "trace": {"module": "TraceRelabel.tla", "consts": _RL(2, 2, 3, 2, 3)}},
    # the array is read from a folder of per-frame TIFFs with unpadded frame numbers (12 frames, two of them used)
    {"name": "relabel_tiffdir", "driver": "relabel",
     "args": {"quick": {"T": 2, "PX": 2, "L": 3, "S": 2, "MaxNode": 3, "via": "tiffdir", "cap": 2},
              "thorough": {"T": 2, "PX": 2, "L": 3, "S": 2, "MaxNode": 3, "via": "tiffdir", "cap": 20}},
     "trace": {"module": "TraceRelabel.tla", "consts": _RL(2, 2, 3, 2, 3)}},
    # the same with imported positions (the importer then validates the array against the graph first)
    {"name": "relabel_dfpos", "driver": "relabel",
     "args": {"quick": {"T": 2, "PX": 2, "L": 3, "S": 2, "MaxNode": 3, "via": "dfpos", "cap": 12},
              "thorough": {"T": 2, "PX": 3, "L": 3, "S": 2, "MaxNode": 3, "via": "dfpos", "cap": 12}},
     "trace": {"module": "TraceRelabel.tla", "consts": {"quick": _RL(2, 2, 3, 2, 3), "thorough": _RL(2, 3, 3, 2, 3)}}},
]

C12_PARTS = [
    {"name": "import_df", "driver": "import_df",
     "design": {"module": "Import.tla", "invariants": ["Inv_Import"],
                "consts": {"quick": {"MaxRows": "2", "Fixes": tlc.tla_set(["F11"])},
                           "thorough": {"MaxRows": "3", "Fixes": tlc.tla_set(["F11"])}}},
     "args": {"quick": {"maxrows": 2, "variants": [["identity", "-1"], ["renamed", "nan"], ["identity", "empty"], ["reindexed", "nan"], ["mixed", "-1"], ["bigids", "-1"]]},
              "thorough": {"maxrows": 3, "variants": [["identity", "-1"], ["renamed", "nan"], ["renamed", "empty"], ["reindexed", "-1"], ["mixed", "nan"], ["bigids", "-1"]]}},
     "trace": {"module": "TraceImport.tla",
               "consts": {"quick": {"MaxRows": "2", "Fixes": tlc.tla_set(["F11"])},
                          "thorough": {"MaxRows": "3", "Fixes": tlc.tla_set(["F11"])}}}},
]

C12_PARTS.append(
    {"name": "import_geff", "driver": "import_geff",
     "design": {"module": "GeffMap.tla", "invariants": ["Inv_Map"], "consts": {}},
     "args": {"quick": {"graphs": 1}, "thorough": {"graphs": 2}},
     "trace": {"module": "TraceGeffMap.tla", "consts": {}}})

# every name map of a small universe through the builder's validate_name_map (and tracks_from_df)
C12_PARTS.append(
    {"name": "map_validation", "driver": "mapvalid",
     "design": {"module": "MapValid.tla", "invariants": ["Inv_Map", "Inv_Model"], "consts": {}},
     "args": {},
     "trace": {"module": "TraceMapValid.tla", "consts": {}}})

# GEFF stores: node and EDGE name maps (missing edge property, node / edge key collision, carried values)
C12_PARTS.append(
    {"name": "geff_edge_maps", "driver": "geff_edgemap",
     "design": {"module": "GeffEdgeMap.tla", "invariants": ["Inv_Map", "Inv_Model"], "consts": {}},
     "args": {},
     "trace": {"module": "TraceGeffEdgeMap.tla", "consts": {}}})

PROPS = {
    "C12": (C12_PARTS,
            "all node tables up to the stated number of rows: every id-name assignment (duplicates), every parent reference (none / any row / "
            "an unknown id / itself), every time assignment, integer (non-contiguous) and string ids, parent-none encoded as -1 / NaN / empty, "
            "identity and renamed columns with composite position and a custom column, and every dropped / dangling required mapping; "
            "non-trivial = malformed variant",
            ["payload values are small integers (float formatting and dtype coercion of arbitrary reals are not decided)",
             "GEFF entry point: every ordered injective name map over three custom properties (plain, renamed, chained, swapped) on "
             "stores with non-contiguous ids, a division and a skip edge; further GEFF coverage through C14's round trips"]),
    "C13": (C13_PARTS,
            "all label arrays (2 frames, labels 0..3 incl. an unlisted one) x all injective assignments (time, seg id) -> node id over ids 0..3 "
            "(reused labels across frames, label = another node's id, permutations, id 0); non-trivial = id 0 present or a node id equal to a seg id of another slot",
            ["2 frames x 2-3 pixels; the relabelling works pixel-wise and frame-wise, so larger arrays add no new cases"]),
    "C17": (C17_PARTS,
            "all ordered lists of distinct names of a 22-name vocabulary (exact keys, case variants, near-duplicates) up to the "
            "stated length, x 2 feature tables (2D / 3D display names) x 2 required-key sets (CSV / GEFF); non-trivial = list with "
            "a column that is not an exact standard key",
            ["names outside the 22-name vocabulary are not explored", "difflib similarity supplied as a constant table "
             "computed by the standard library, independently of funtracks"]),
    "C18": (C18_PARTS,
            "point lists: every non-empty subset of {frames} x {3 grid positions} (all frame gaps), distances incl. the boundary cases "
            "d=2 and the 3-4-5 triangle; label arrays: all 3-frame 1x3 arrays with 2 labels per frame; non-trivial = input with a frame gap / output with edges",
            ["positions on a 3-point integer grid; unit or small integer scales", "labels unique across frames (documented precondition)"]),
    "C19": (C19_PARTS,
            "label arrays: all arrays of the universe (every frame content incl. empty frames, repeated labels); non-trivial = "
            "input with a label occurring in two frames / solution with at least one edge",
            ["label values 0..2 and 3-4 frames of 1-2 pixels: the loop only depends on per-frame maxima and on label equality",
             "detections = (frame, label) pairs over 3 frames x 2 labels; 4 fixed label arrays"]),
}


def run(prop, tier, seed):
    parts, rule, assumptions = PROPS[prop]
    return io_check.run(prop, parts, tier, seed, rule, assumptions)
